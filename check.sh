#!/bin/bash
# usage: check.sh <C16|C17|C18> <quick|thorough>
# Rebuilds the simulator against /repo's current working tree with the hooks on
# (--cfg pasfmt_verif), then runs the seeded search for one property.
# exit 0: held on everything explored; exit 1: VIOLATION line printed; exit 2: harness error.
prop="$1"; tier="${2:-${VERIF_TIER:-quick}}"
here="$(cd "$(dirname "$0")" && pwd)"
export VERIF_DIR="${VERIF_DIR:-$here}"
export CARGO_TARGET_DIR="${CARGO_TARGET_DIR:-$here/target}"
export CARGO_NET_OFFLINE=true
cd "$here/sim" || { echo "HARNESS-ERROR: $here/sim missing"; exit 2; }
mkdir -p "$CARGO_TARGET_DIR"
# pasfmt-core is compiled against the std shadow (sim/shadowstd.rs, through sim/rustc-wrap.sh); cargo
# does not know about that file, so a missing or outdated shadow means pasfmt-core must be rebuilt
shadow="$CARGO_TARGET_DIR/release/deps/libverif_std.rlib"
if [ ! -f "$shadow" ] || [ "$here/sim/shadowstd.rs" -nt "$shadow" ] || [ "$here/sim/rustc-wrap.sh" -nt "$shadow" ]; then
  rm -f "$shadow"
  cargo clean --release --offline -p pasfmt-core > /dev/null 2>&1
fi
if ! cargo build --release --offline > "$CARGO_TARGET_DIR/build-$prop.log" 2>&1; then
  echo "HARNESS-ERROR: the simulator does not build against the current /repo tree (not a verdict)"
  grep -E "^(error|warning: unused)" -A12 "$CARGO_TARGET_DIR/build-$prop.log" | head -60
  exit 2
fi
cd "$here"
exec "$CARGO_TARGET_DIR/release/pasfmt-sim" check "$prop" --tier "$tier"
