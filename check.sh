#!/bin/bash
# usage: check.sh <C16|C17|C18> <quick|thorough>
# Rebuilds the simulator against /repo's current working tree with the hooks on
# (--cfg pasfmt_verif), then runs the seeded search for one property.
# exit 0: held on everything explored; exit 1: VIOLATION line printed; exit 2: harness error.
prop="$1"; tier="${2:-${VERIF_TIER:-quick}}"
cd /verif/sim || { echo "HARNESS-ERROR: /verif/sim missing"; exit 2; }
export CARGO_NET_OFFLINE=true
mkdir -p /verif/target
if ! cargo build --release --offline > /verif/target/build-$prop.log 2>&1; then
  echo "HARNESS-ERROR: the simulator does not build against the current /repo tree (not a verdict)"
  grep -E "^(error|warning: unused)" -A12 /verif/target/build-$prop.log | head -60
  exit 2
fi
cd /verif
exec /verif/target/release/pasfmt-sim check "$prop" --tier "$tier"
