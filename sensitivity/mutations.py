#!/usr/bin/env python3
"""Sensitivity harness: applies one small edit at a time to /repo's working tree, runs the
quick checks named for it, records the verdict, and reverts (git checkout). Breaking edits
must be reported (exit 1 + VIOLATION); behaviour-preserving edits must stay silent (exit 0).
Usage: mutations.py [name ...]   (no names = all)"""
import subprocess, sys, json, time, os

FF = 'orchestrator/src/file_formatter.rs'
MAIN = 'front-end/src/main.rs'
LEX = 'core/src/defaults/lexer.rs'

M = []
def mut(name, kind, props, file, old, new, note=''):
    M.append(dict(name=name, kind=kind, props=props, file=file, old=old, new=new, note=note))

# ---- breaking edits
mut('no_clear', 'break', ['C18'], FF, '                input_buf.clear();\n', '', 'per-worker buffer not cleared: needs one worker folding >=2 files')
mut('try_for_each', 'break', ['C18'], FF,
    '''            .for_each(|res| {
                if let Err(e) = res {
                    error_handler(e);
                };
            });''',
    '''            .try_for_each(|res| {
                if let Err(e) = res {
                    error_handler(e);
                    return Err(());
                };
                Ok(())
            })
            .ok();''', 'first failure stops the batch')
mut('no_set_len', 'break', ['C16'], FF,
    '''                file.set_len(new_len).with_context(|| {
                    format!("failed to set file length: '{}'", file_path.display())
                })?;
''', '''                let _ = new_len;
''', 'stale tail when the result is shorter')
mut('ignore_set_len_error', 'break', ['C18'], FF,
    '''                file.set_len(new_len).with_context(|| {
                    format!("failed to set file length: '{}'", file_path.display())
                })?;
''', '''                let _ = file.set_len(new_len);
''', 'needs a fault exactly on set_len')
mut('write_not_write_all', 'break', ['C16', 'C17'], FF,
    '        write.write_all(&encoded_output)?;\n', '        let _ = write.write(&encoded_output)?;\n', 'needs a short write')
mut('single_read', 'break', ['C16', 'C17'], FF,
    '        file.read_to_end(buf)?;\n',
    '        buf.resize(1 << 20, 0);\n        let n = file.read(buf)?;\n        buf.truncate(n);\n', 'needs a short read')
mut('retry_read_forever', 'break', ['C16', 'C18'], FF,
    '        file.read_to_end(buf)?;\n',
    '        while file.read_to_end(buf).is_err() {}\n', 'needs a persistent read error: never terminates (liveness); our EIO is one-shot so the retry then succeeds and the "failed" file is rewritten')
mut('truncate_in_check', 'break', ['C16'], FF,
    '''        self.exec_format(
            paths,
            OpenOptions::new(),
            |_, file_path, decoded_file, formatted_output| {
                Self::check_formatting(''',
    '''        self.exec_format(
            paths,
            OpenOptions::new().write(true).truncate(true).to_owned(),
            |_, file_path, decoded_file, formatted_output| {
                Self::check_formatting(''', 'check mode empties files')
mut('drop_bom_when_longer', 'break', ['C17'], FF,
    '''        if let Some(bom) = bom {
            write.write_all(bom)?;''',
    '''        if let Some(bom) = bom.filter(|_| encoded_output.len() < 4096) {
            write.write_all(bom)?;''', 'BOM lost only for results >= 4 KiB')
mut('utf16_astral_swapped', 'break', ['C17'], FF,
    '''        out.extend(data.encode_utf16().flat_map(u16_encoder));''',
    '''        out.extend(data.encode_utf16().flat_map(|u| {
            let b = u16_encoder(u);
            if (0xD800..0xE000).contains(&u) { [b[1], b[0]] } else { b }
        }));''', 'surrogates byte-swapped')
mut('accept_malformed_stdin', 'break', ['C17'], FF,
    '        if replacements {\n', '        if replacements && name.to_string() != "<stdin>" {\n', 'malformed stdin accepted')
mut('static_buffer', 'break', ['C18'], FF,
    '''            .map_init(Vec::<u8>::new, |input_buf, file_path| {
                input_buf.clear();
''',
    '''            .map_init(Vec::<u8>::new, |_unused_buf, file_path| {
                static SHARED: std::sync::Mutex<Vec<u8>> = std::sync::Mutex::new(Vec::new());
                SHARED.lock().unwrap().clear();
                let mut local = Vec::new();
                let input_buf = &mut local;
                let _ = &SHARED;
''', 'placeholder; replaced below')
M.pop()  # the naive version above is not a bug; use the racy one:
mut('shared_scratch', 'break', ['C18'], FF,
    '''        let (contents, replacements) = encoding.decode_without_bom_handling(contents);
''',
    '''        let (contents, replacements) = encoding.decode_without_bom_handling(contents);
        // "optimisation": remember the last decoded length to pre-size the next decode
        static LAST_LEN: std::sync::atomic::AtomicUsize = std::sync::atomic::AtomicUsize::new(0);
        let prev = LAST_LEN.swap(contents.len(), std::sync::atomic::Ordering::Relaxed);
        let replacements = replacements || (prev == contents.len() && prev > 0 && bom.is_some());
''', 'state shared between files: a BOM file is rejected when the previous decoded text had the same length')
mut('check_compares_length', 'break', ['C16'], FF,
    '        if input != output {\n            bail!("CHECK', '        if input.len() != output.len() {\n            bail!("CHECK', 'check passes when only the length agrees')
mut('skip_write_same_length', 'break', ['C16'], FF,
    '                if decoded_file.contents.eq(&formatted_output) {\n', '                if decoded_file.contents.len() == formatted_output.len() {\n', 'unchanged-test compares lengths')
mut('exit_ok_if_any_ok', 'break', ['C18'], MAIN,
    '''    let err_handler = |e| {
        had_error.store(true, Ordering::Relaxed);''',
    '''    let seen = std::sync::atomic::AtomicUsize::new(0);
    let err_handler = |e| {
        // only the second and later errors flip the exit status
        if seen.fetch_add(1, Ordering::Relaxed) > 0 {
            had_error.store(true, Ordering::Relaxed);
        }''', 'a single failing file leaves exit status 0')
mut('stdout_drops_bom', 'break', ['C17'], FF,
    '            (decoded_file.encoding, decoded_file.bom)\n', '            (decoded_file.encoding, decoded_file.bom.filter(|b| b.len() == 3))\n', 'UTF-16 BOM lost on the stdout path')
mut('set_len_text_length', 'break', ['C16', 'C17'], FF,
    '                file.set_len(new_len).with_context(|| {', '                file.set_len((formatted_output.len() as u64).min(new_len)).with_context(|| {', 'length of the text, not of the encoded bytes: truncates BOM/UTF-16 files')
mut('eintr_not_retried_on_write', 'break', ['C16'], FF,
    '        write.write_all(&encoded_output)?;\n',
    '''        let mut rest: &[u8] = &encoded_output;
        while !rest.is_empty() {
            let n = write.write(rest)?;
            if n == 0 { return Err(io::Error::new(io::ErrorKind::WriteZero, "write zero")); }
            rest = &rest[n..];
        }
''', 'hand-rolled loop that does not retry EINTR: a benign interrupt fails the file')
mut('bom_sniff_after_config', 'break', ['C17'], FF,
    '''            Some((encoding, bom_length)) => {
                (encoding, (Some(&buf[..bom_length]), &buf[bom_length..]))
            }
            None => (self.encoding, (None, &buf[..])),''',
    '''            Some((encoding, bom_length))
                if encoding == self.encoding || self.encoding == encoding_rs::UTF_8 =>
            {
                (encoding, (Some(&buf[..bom_length]), &buf[bom_length..]))
            }
            _ => (self.encoding, (None, &buf[..])),''', 'a BOM only wins when the configured encoding is UTF-8 or agrees')
mut('dir_walk_uppercase_ext_skipped', 'break', ['C18'], FF,
    '''            ext.eq_ignore_ascii_case("pas")''', '''            ext == "pas"''', 'a directory walk silently skips .PAS files: the batch no longer formats what each file gets alone (needs the directory path form and an upper-case extension)')
mut('stdout_mode_writes_back', 'break', ['C16'], FF,
    '''            OpenOptions::new(),
            |_, file_path, _, formatted_output| {''',
    '''            OpenOptions::new().write(true).to_owned(),
            |file, file_path, decoded, formatted_output| {
                if decoded.bom.is_some() && decoded.contents.len() > formatted_output.len() {
                    let _ = file.set_len(0);
                }''', 'stdout mode truncates BOM files whose result is shorter')
mut('no_per_file_lock', 'break', ['C18'], FF,
    '''                let _one_worker_at_a_time = file_lock.as_ref().map(|lock| lock.lock().unwrap());''',
    '''                let _one_worker_at_a_time = file_lock.as_ref().map(|_| ());''', 'undoes F05/F08: needs two hard-linked names of one file, two workers and a read between write and set_len')
mut('drop_names_with_a_seen_inode', 'break', ['C18'], FF,
    '''            Ok(path) => seen.insert(path.canonicalize().unwrap_or_else(|_| path.clone())),''',
    '''            Ok(path) => seen.insert(match file_identity(path) {
                Some((dev, ino)) => PathBuf::from(format!("{dev}:{ino}")),
                None => path.canonicalize().unwrap_or_else(|_| path.clone()),
            }),''', 'brings back b35a50e (F08): needs a second name that is read-only, or a link that breaks on write')
mut('p_no_dedupe_at_all', 'preserve', ['C18'], FF,
    '''            Ok(path) => seen.insert(path.canonicalize().unwrap_or_else(|_| path.clone())),''',
    '''            Ok(path) => true || seen.insert(path.canonicalize().unwrap_or_else(|_| path.clone())),''', 'the same path named twice is processed twice, but under the per-file lock: no race, results equal - expected to stay silent')
mut('walk_by_extension_only', 'break', ['C18'], FF,
    '''                                match formattable_file_path(file_path) && !file_path.is_dir() {''',
    '''                                match formattable_file_path(file_path) {''', 'undoes F07: needs a directory named like a source file inside (or as) the walked directory')

# ---- behaviour-preserving edits (must stay silent)
mut('p_always_rewrite', 'preserve', ['C16', 'C17', 'C18'], FF,
    '                if decoded_file.contents.eq(&formatted_output) {\n', '                if false && decoded_file.contents.eq(&formatted_output) {\n', 'rewrites unchanged files with identical bytes')
mut('p_map_with', 'preserve', ['C18'], FF,
    '            .map_init(Vec::<u8>::new, |input_buf, file_path| {', '            .map_with(Vec::<u8>::new(), |input_buf, file_path| {', 'map_with instead of map_init')
mut('p_presize_buffer', 'preserve', ['C16', 'C18'], FF,
    '        file.read_to_end(buf)?;\n', '        buf.reserve(8192);\n        file.read_to_end(buf)?;\n', 'different buffer growth')
mut('p_flush_after_write', 'preserve', ['C16', 'C17'], FF,
    '        write.write_all(&encoded_output)?;\n', '        write.write_all(&encoded_output)?;\n        write.flush()?;\n', 'extra flush')
mut('p_set_len_first', 'preserve', ['C16', 'C17', 'C18'], FF,
    '''                file.seek(SeekFrom::Start(0)).with_context(|| {''',
    '''                file.set_len(0).with_context(|| {
                    format!("failed to set file length: '{}'", file_path.display())
                })?;
                file.seek(SeekFrom::Start(0)).with_context(|| {''', 'truncate first, then write (still correct when no fault hits)')

def sh(cmd, **kw):
    return subprocess.run(cmd, shell=True, capture_output=True, text=True, **kw)

def main():
    names = sys.argv[1:]
    todo = [m for m in M if not names or m['name'] in names]
    results = []
    for m in todo:
        assert sh('git -C /repo status --porcelain').stdout.strip() == '', 'repo dirty'
        path = '/repo/' + m['file']
        src = open(path).read()
        if m['old'] not in src:
            print(f"{m['name']}: PATTERN NOT FOUND"); continue
        open(path, 'w').write(src.replace(m['old'], m['new'], 1))
        diff = sh('git -C /repo diff').stdout
        os.makedirs('/verif/sensitivity/patches', exist_ok=True)
        open(f"/verif/sensitivity/patches/{m['name']}.diff", 'w').write(diff)
        row = dict(name=m['name'], kind=m['kind'], note=m['note'], checks={})
        try:
            for p in m['props']:
                t = time.time()
                r = sh(f'/verif/check.sh {p} quick', env=dict(os.environ, VERIF_DIR='/tmp/sens-out'))
                lines = [l for l in r.stdout.splitlines() if l.startswith(('VIOLATION', '  oracle', 'HARNESS', 'OK '))]
                row['checks'][p] = dict(exit=r.returncode, secs=round(time.time() - t), lines=lines[:6], err=r.stderr[-300:] if r.returncode == 2 else '')
                print(m['name'], p, 'exit', r.returncode, lines[:2], flush=True)
        finally:
            sh('git -C /repo checkout -- .')
        results.append(row)
        json.dump(results, open('/tmp/sens-out/results.json', 'w'), indent=1)
    return 0

if __name__ == '__main__':
    os.makedirs('/tmp/sens-out', exist_ok=True)
    import shutil
    shutil.copy('/verif/known_findings.json', '/tmp/sens-out/known_findings.json')
    main()
