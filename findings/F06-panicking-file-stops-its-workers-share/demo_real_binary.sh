#!/bin/bash
# F06 on the real binary, no simulator: 200 small units, the 11th of which makes the formatter
# panic (`if record`: parser.rs get_current_token_index().unwrap()); one worker thread.
# Alone, every healthy file is formatted; in the batch the healthy files that rayon had put in
# the same sequential share after the panicking one are left untouched and never mentioned
# (exit status 101). How many depends on how rayon split the list (here: 14 at one thread).
# usage: demo_real_binary.sh [path to pasfmt]     exit 1 = violation observed, 0 = not observed
BIN=${1:-/repo/target/release/pasfmt}
W=$(mktemp -d); trap 'rm -rf "$W"' EXIT
mkdir "$W/alone" "$W/batch"
for i in $(seq -w 0 199); do printf 'unit   U%s ;   interface   implementation   end.' $i > "$W/alone/f$i.pas"; done
printf 'if record' > "$W/alone/f010.pas"
cp "$W"/alone/*.pas "$W/batch/"
for f in "$W"/alone/*.pas; do "$BIN" "$f" 2>/dev/null; done
ls "$W"/batch/*.pas > "$W/list"
RAYON_NUM_THREADS=${THREADS:-1} "$BIN" --files-from "$W/list" 2> "$W/err"; rc=$?
bad=0; names=""
for f in "$W"/alone/*.pas; do b=$(basename "$f"); [ "$b" = f010.pas ] && continue
  cmp -s "$f" "$W/batch/$b" || { bad=$((bad+1)); names="$names $b"; }; done
echo "batch exit status $rc; $bad healthy files left unformatted:$names"
echo "stderr: $(head -c 300 "$W/err")"
[ $bad -eq 0 ] && exit 0 || exit 1
