#!/bin/bash
# C18 hunt 01: hard links to one file are not recognised as "the same file"
# (de-duplication in expand_paths is by canonical *path*, not by inode), so several pool threads
# rewrite the same inode concurrently. A thread that reads the inode while another one is between
# its write() and its set_len() (or mid-write) formats a torn mixture and writes that back.
# Every path below holds the same original content, so the "alone" result of each is expected.pas.
# exit 1 = violation observed (some path's batch result != its alone result), 0 = holds.
set -u
HERE=$(cd "$(dirname "$0")" && pwd)
BIN=$HERE/../target/release/pasfmt
ITER=${ITER:-20}
THREADS=${THREADS:-8}
INODES=${INODES:-300}     # distinct files
LINKS=${LINKS:-$THREADS}    # names (hard links) per file
W=$(mktemp -d "$HERE/tmp.h01.XXXXXX"); trap 'rm -rf "$W"' EXIT
viol=0
for it in $(seq 1 $ITER); do
  rm -rf "$W"/*; mkdir -p "$W/b"
  # small, badly formatted unit whose formatted form is much shorter than the original
  { printf 'unit   U ;   \n\n\n\ninterface\n\n\n\n\nimplementation\n\n\n\n\n'
    printf 'procedure   P( A :Integer ) ;   \nbegin\n      A:=A+1 ;      \n\n\n\nend ;\n\n\n\n\n'
    printf 'end.      \n'; } > "$W/orig.pas"
  "$BIN" < "$W/orig.pas" > "$W/expected.pas" || exit 2      # the "alone" result
  "$BIN" -m check "$W/expected.pas" || exit 2               # (idempotent)
  # thread k is expected to take the k-th contiguous slice of the path list, so inode i is
  # reached by all threads at about the same time.
  for i in $(seq 0 $((INODES-1))); do
    f0=$(printf '%s/b/t00_i%04d.pas' "$W" $i); cp "$W/orig.pas" "$f0"
    for k in $(seq 1 $((LINKS-1))); do ln "$f0" "$(printf '%s/b/t%02d_i%04d.pas' "$W" $k $i)"; done
  done
  ls "$W"/b/*.pas > "$W/list"
  RAYON_NUM_THREADS=$THREADS "$BIN" --files-from "$W/list" 2> "$W/err"; rc=$?
  bad=0
  for f in "$W"/b/t00_*.pas; do cmp -s "$f" "$W/expected.pas" || { bad=$((bad+1)); last=$f; }; done
  if [ $bad -ne 0 ] || [ $rc -ne 0 ]; then
    echo "iter $it: $bad of $INODES files differ from the alone result; exit status $rc; stderr: $(head -c 200 "$W/err")"
    [ $bad -ne 0 ] && [ $viol -eq 0 ] && { echo "--- example: diff expected $last"; diff "$W/expected.pas" "$last" | head -20; echo "---"; }
    viol=$((viol+1))
  fi
done
echo "violations: $viol / $ITER invocations (threads=$THREADS, $INODES inodes x $LINKS names each)"
[ $viol -eq 0 ] && exit 0 || exit 1
