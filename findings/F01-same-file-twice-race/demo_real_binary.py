#!/usr/bin/env python3
"""Real-binary demonstration of finding F01 (property C18): the same file named many times in
one invocation is rewritten by several pool threads at once and can end up corrupted while the
exit status stays 0. usage: demo_real_binary.py <path to pasfmt binary> [iterations]
Exits 1 if any run left wrong bytes behind (unfixed tree: ~4% of runs on a 16-core VM)."""
import subprocess, shutil, sys, tempfile, os
binary = sys.argv[1]
iters = int(sys.argv[2]) if len(sys.argv) > 2 else 300
src = "procedure   Foo ;\nbegin\n" + "   a   :=    b   +   c  ;\n\n\n\n" * 400 + "end;\n"
d = tempfile.mkdtemp()
orig, t = os.path.join(d, 'orig.pas'), os.path.join(d, 't.pas')
open(orig, 'w').write(src)
exp = subprocess.run([binary], input=src.encode(), capture_output=True).stdout
bad = 0
for i in range(iters):
    shutil.copy(orig, t)
    r = subprocess.run([binary] + [t] * 48, capture_output=True)
    got = open(t, 'rb').read()
    if got != exp or r.returncode != 0:
        bad += 1
print(f'corrupted or failed runs: {bad} of {iters}')
shutil.rmtree(d)
sys.exit(1 if bad else 0)
