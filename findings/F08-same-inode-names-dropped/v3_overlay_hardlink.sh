#!/bin/bash
# overlayfs (index=off, the kernel/Docker default): two hard-linked names in the LOWER layer. The batch treats
# the second name as a duplicate (same st_dev/st_ino) and skips it, but writing the first name copies it up and
# breaks the link: the second file stays unformatted and the exit status is 0. Alone it would be formatted.
# Needs root (mount). exit 0 if the overlay cannot be mounted.
export RUST_BACKTRACE=0
P=/tmp/wt-h18b/target/release/pasfmt
W=/tmp/wt-h18b/hunt/wv3; mountpoint -q $W/merged 2>/dev/null && umount $W/merged; rm -rf $W; mkdir -p $W/lower $W/upper $W/work $W/merged
printf 'procedure P; begin  A( 1,2 ) ; end;\n' > $W/lower/a.pas; ln $W/lower/a.pas $W/lower/b.pas
mount -t overlay overlay -o lowerdir=$W/lower,upperdir=$W/upper,workdir=$W/work $W/merged 2>/dev/null || { echo "cannot mount overlay; skipped"; exit 0; }
$P $W/merged 2>&1; rc=$?     # also: $P merged/a.pas merged/b.pas
a=$(grep -c '^begin' $W/merged/a.pas); b=$(grep -c '^begin' $W/merged/b.pas)
echo "batch rc=$rc a.pas formatted=$a b.pas formatted=$b"
left=b; [ "$a" = 0 ] && left=a
$P $W/merged/$left.pas; echo "then $left.pas alone: rc=$? formatted=$(grep -c '^begin' $W/merged/$left.pas)"
umount $W/merged
[ "$rc" = 0 ] && [ $((a+b)) = 1 ] && exit 1
exit 0
