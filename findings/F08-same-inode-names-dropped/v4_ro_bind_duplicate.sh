#!/bin/bash
# Same file reachable through a read-only bind mount and a writable path. The duplicate filter keeps the FIRST
# name only. (1) ro name first: the writable name is dropped, the file is not formatted (alone it would be).
# (2) rw name first: the ro name (which fails alone with EROFS, rc=1) is dropped silently and rc=0.
# Needs root (mount). exit 0 if mounting is impossible.
export RUST_BACKTRACE=0
P=/tmp/wt-h18b/target/release/pasfmt
W=/tmp/wt-h18b/hunt/wv4; mountpoint -q $W/ro 2>/dev/null && umount $W/ro; rm -rf $W; mkdir -p $W/rw $W/ro
src='procedure P; begin  A( 1,2 ) ; end;\n'
printf "$src" > $W/rw/a.pas
mount --bind $W/rw $W/ro 2>/dev/null && mount -o remount,ro,bind $W/ro 2>/dev/null || { echo "cannot mount; skipped"; exit 0; }
viol=0
$P $W/ro/a.pas $W/rw/a.pas 2>/dev/null; rc1=$?; f1=$(grep -c '^begin' $W/rw/a.pas)
echo "(1) ro first: rc=$rc1 rw/a.pas formatted=$f1  (alone: 'pasfmt rw/a.pas' formats it)"
[ "$f1" = 0 ] && viol=1
printf "$src" > $W/rw/a.pas
$P $W/ro/a.pas 2>/dev/null; echo "    ro/a.pas alone: rc=$?"
$P $W/rw/a.pas $W/ro/a.pas 2>/dev/null; rc2=$?
echo "(2) rw first: rc=$rc2 (ro/a.pas fails alone, so the batch should exit non-zero)"
[ "$rc2" = 0 ] && viol=1
umount $W/ro
exit $viol
