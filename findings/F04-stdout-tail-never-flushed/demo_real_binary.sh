#!/bin/bash
# Real-binary demonstration of finding F04 (properties C16/C17): stdin -> stdout with a result
# that does not end in a newline (or UTF-16LE output, whose last byte follows the 0x0A) and a
# stdout that cannot take the data. Before the fix pasfmt exits 0 and the output is truncated.
# usage: demo_real_binary.sh <path to pasfmt binary>; exit 1 if the failure is silent.
bin="$1"
printf '{pasfmt off} foo' | "$bin" > /dev/full 2>/dev/null
rc=$?
echo "result without final newline to /dev/full: rc=$rc (must be non-zero)"
[ "$rc" -ne 0 ]
