#!/usr/bin/env python3
"""Real-binary demonstration of finding F03 (property C18): a file with a few thousand directly
nested begin..end blocks is handled when it is the only path (rayon runs a single item inline on
the main thread, 8 MiB stack) but overflows the 2 MiB stack of a pool thread as soon as a second
path is given: the whole process aborts (SIGABRT), the other file is never processed.
usage: demo_real_binary.py <path to pasfmt binary>   exit 1 if the batch dies where alone works."""
import subprocess, sys, tempfile, os, shutil
binary = sys.argv[1]
d = tempfile.mkdtemp()
bad = 0
for n in [500, 1000, 2000, 4000, 8000, 16000]:
    deep, small = os.path.join(d, 'deep.pas'), os.path.join(d, 'small.pas')
    open(deep, 'w').write("procedure P;\n" + "begin\n" * n + "x := 1;\n" + "end;\n" * n)
    open(small, 'w').write("a ;\n")
    a = subprocess.run([binary, '--mode', 'check', deep], capture_output=True)
    b = subprocess.run([binary, '--mode', 'check', deep, small], capture_output=True)
    print(f'nesting {n}: alone rc={a.returncode} batch rc={b.returncode}')
    if a.returncode >= 0 and b.returncode < 0:
        bad += 1
shutil.rmtree(d)
sys.exit(1 if bad else 0)
