#!/bin/bash
# rustc wrapper of the simulator build (see sim/.cargo/config.toml, DESIGN.md §8 "std seam").
# For the package pasfmt-core - and for pasfmt-sim, which installs the yield function - it compiles
# shadowstd.rs to <deps dir>/libverif_std.rlib and adds `--extern std=<that rlib>` (pasfmt-core:
# `std` now names the shadow) resp. `--extern verif_std=<that rlib>` (pasfmt-sim). Every other
# invocation is passed through untouched.
rustc="$1"; shift
here="$(cd "$(dirname "${BASH_SOURCE[0]}")" && pwd)"
case "$CARGO_PKG_NAME" in
  pasfmt-core|pasfmt-sim) ;;
  *) exec "$rustc" "$@" ;;
esac
outdir=""; prev=""; has_crate_name=0
for a in "$@"; do
  [ "$prev" = "--out-dir" ] && outdir="$a"
  [ "$a" = "--crate-name" ] && has_crate_name=1
  prev="$a"
done
if [ -z "$outdir" ] || [ $has_crate_name -eq 0 ]; then exec "$rustc" "$@"; fi
# build scripts and their runs are not the library/binary we are after
case "$CARGO_CRATE_NAME" in build_script_*) exec "$rustc" "$@" ;; esac
rlib="$outdir/libverif_std.rlib"
(
  flock 9
  if [ ! -f "$rlib" ] || [ "$here/shadowstd.rs" -nt "$rlib" ]; then
    "$rustc" --edition 2021 --crate-type rlib --crate-name verif_std -C opt-level=3 -C panic=unwind \
      -C metadata=verif-std-shadow "$here/shadowstd.rs" -o "$rlib.tmp.$$" && mv "$rlib.tmp.$$" "$rlib" || exit 1
  fi
) 9>"$outdir/.verif_std.lock" || { echo "rustc-wrap: cannot build the std shadow" >&2; exit 1; }
if [ "$CARGO_PKG_NAME" = "pasfmt-core" ]; then
  exec "$rustc" "$@" --extern "std=$rlib"
else
  exec "$rustc" "$@" --extern "verif_std=$rlib"
fi
