//! A *case* is one judged experiment: the invocation under test plus everything needed to
//! compute its reference (the stdin→stdout run for C16, the pure API + reference codec for
//! C17, the per-file "alone" invocations for C18). A case file alone is the replay file.

use crate::child::{run_reference, run_scenario};
use crate::codec;
use crate::scenario::*;
use serde::{Deserialize, Serialize};
use std::collections::BTreeMap;

#[derive(Serialize, Deserialize, Clone, Copy, Debug, PartialEq, Eq)]
#[serde(rename_all = "snake_case")]
pub enum Mode {
    /// `pasfmt <paths>`: rewrite in place
    Files,
    /// `pasfmt --mode check <paths>`
    Check,
    /// `pasfmt --mode stdout <paths>`
    Stdout,
    /// `pasfmt` with the (single) file's bytes on stdin, result on stdout
    StdinStdout,
    /// `pasfmt --mode check` with the bytes on stdin
    StdinCheck,
}

impl Mode {
    pub fn name(self) -> &'static str {
        match self {
            Mode::Files => "files",
            Mode::Check => "check",
            Mode::Stdout => "stdout",
            Mode::StdinStdout => "stdin_stdout",
            Mode::StdinCheck => "stdin_check",
        }
    }
    pub fn is_stdin(self) -> bool {
        matches!(self, Mode::StdinStdout | Mode::StdinCheck)
    }
}

/// How the batch is named on the command line. Everything but `Explicit` goes through the
/// real path discovery code (walkdir / glob / --files-from) on a scratch tree of placeholders.
#[derive(Serialize, Deserialize, Clone, Copy, Debug, PartialEq, Eq, Default)]
#[serde(rename_all = "snake_case")]
pub enum PathForm {
    /// one argument per file (or, when `path_args` is not empty, exactly those arguments)
    #[default]
    Explicit,
    /// `path_args` are directories that contain exactly the batch
    Directory,
    /// `path_args` are glob patterns that match exactly the batch
    Glob,
    /// `--files-from files.lst`, whose lines are `path_args` (files, directories or globs)
    FilesFrom,
}

impl PathForm {
    pub fn name(self) -> &'static str {
        match self {
            PathForm::Explicit => "explicit",
            PathForm::Directory => "directory",
            PathForm::Glob => "glob",
            PathForm::FilesFrom => "files_from",
        }
    }
}

#[derive(Serialize, Deserialize, Clone, Debug, PartialEq, Eq)]
pub struct Case {
    pub property: String,
    #[serde(default)]
    pub seed: u64,
    #[serde(default)]
    pub run: u64,
    /// `-C key=value` overrides, in order
    pub options: Vec<(String, String)>,
    pub mode: Mode,
    /// the batch (for stdin modes: exactly one entry, whose bytes are fed to stdin)
    pub files: Vec<SimFile>,
    #[serde(default)]
    pub knobs: Knobs,
    #[serde(default)]
    pub workers: usize,
    #[serde(default)]
    pub chunks: Vec<usize>,
    #[serde(default)]
    pub policy: Policy,
    #[serde(default)]
    pub schedule: Option<Vec<u32>>,
    #[serde(default)]
    pub faults: Vec<Fault>,
    #[serde(default)]
    pub chunking: Vec<Chunking>,
    /// extra argv (e.g. `--cursor=1,2`)
    #[serde(default)]
    pub extra_args: Vec<String>,
    #[serde(default)]
    pub path_form: PathForm,
    /// directories / patterns / list lines, depending on `path_form`
    #[serde(default)]
    pub path_args: Vec<String>,
    /// `--files-from` only: the list contains an undecodable line before the n-th entry
    #[serde(default, skip_serializing_if = "Option::is_none")]
    pub list_poison: Option<usize>,
    /// (alias, target): two names of one file (hard links); both are entries of `files`
    #[serde(default, skip_serializing_if = "Vec::is_empty")]
    pub hardlinks: Vec<(String, String)>,
    /// explicit path arguments that also exist as placeholders in the scratch tree, so that the
    /// product can ask the file system about them (identity, canonical path)
    #[serde(default, skip_serializing_if = "std::ops::Not::not")]
    pub explicit_real: bool,
    /// the hard-linked names stop being one file when written to (overlay file system)
    #[serde(default, skip_serializing_if = "std::ops::Not::not")]
    pub links_copy_up: bool,
    /// files whose placeholder is a symbolic link (directory / glob / files-from forms only)
    #[serde(default, skip_serializing_if = "Vec::is_empty")]
    pub symlinks: Vec<String>,
    /// additional path arguments that cannot be expanded or opened (an invalid glob pattern, a
    /// directory that does not exist): each is a failing member of the batch
    #[serde(default, skip_serializing_if = "Vec::is_empty")]
    pub bogus_paths: Vec<String>,
    /// the bogus arguments come before the other path arguments instead of after them
    #[serde(default, skip_serializing_if = "std::ops::Not::not")]
    pub bogus_first: bool,
    /// `--files-from` only: the list arrives through a pipe (`--files-from /dev/stdin`), so it
    /// can be read exactly once
    #[serde(default, skip_serializing_if = "std::ops::Not::not")]
    pub list_via_pipe: bool,
}

#[derive(Serialize, Deserialize, Clone, Debug, PartialEq, Eq)]
pub struct Finding {
    /// stable identifier of the oracle that failed
    pub oracle: String,
    pub detail: String,
}

#[derive(Debug)]
pub enum Verdict {
    /// the case was judged; the findings (possibly none)
    Judged(Vec<Finding>),
    /// the content makes the pure formatter abort/stall on its own (C04's subject): not judged
    Discarded(String),
    /// the harness itself failed (watchdog, broken report): never a verdict
    HarnessError(String),
}

/// Collects what the evaluation of cases covered.
#[derive(Default, Serialize, Deserialize, Clone, Debug)]
pub struct Stats {
    pub cases: u64,
    pub cases_discarded: u64,
    pub cases_fault_free: u64,
    pub cases_with_faults: u64,
    pub invocations: u64,
    pub steps: u64,
    pub switches: u64,
    pub fired: BTreeMap<String, u64>,
    pub planned_not_fired: u64,
    pub probes: BTreeMap<String, u64>,
    pub interleavings: std::collections::BTreeSet<u64>,
    pub shapes: std::collections::BTreeSet<String>,
    pub by_mode: BTreeMap<String, u64>,
    pub by_encoding: BTreeMap<String, u64>,
    pub by_policy: BTreeMap<String, u64>,
    pub by_workers: BTreeMap<String, u64>,
    pub sweep_runs: u64,
    pub determinism_pairs: u64,
    pub max_bytes: u64,
    #[serde(default)]
    pub reference_memo_hits: u64,
    /// scratch: policy decisions of the most recent multi-worker run (read by the search loop to
    /// size the follow-up schedules of the same case)
    #[serde(default)]
    pub last_policy_decisions: u64,
    #[serde(default)]
    pub followup_schedules: u64,
}

impl Stats {
    pub fn probe(&mut self, name: &str) {
        *self.probes.entry(name.to_string()).or_insert(0) += 1;
    }
    pub fn absorb_run(&mut self, sc: &Scenario, r: &RunResult) {
        self.invocations += 1;
        self.steps += r.steps;
        self.switches += r.switches;
        for f in &r.fired {
            *self
                .fired
                .entry(format!("{}@{:?}", f.kind.name(), f.op).to_lowercase())
                .or_insert(0) += 1;
        }
        self.planned_not_fired += (sc.faults.len() as u64).saturating_sub(r.fired.len() as u64);
        for (k, v) in &r.probes {
            *self.probes.entry(k.clone()).or_insert(0) += v;
        }
        if sc.workers > 1 && sc.files.len() > 1 {
            self.interleavings.insert(r.interleave_hash);
            self.last_policy_decisions = r.policy_decisions;
        }
    }
    pub fn merge(&mut self, o: &Stats) {
        self.cases += o.cases;
        self.cases_discarded += o.cases_discarded;
        self.cases_fault_free += o.cases_fault_free;
        self.cases_with_faults += o.cases_with_faults;
        self.invocations += o.invocations;
        self.steps += o.steps;
        self.switches += o.switches;
        self.planned_not_fired += o.planned_not_fired;
        self.sweep_runs += o.sweep_runs;
        self.determinism_pairs += o.determinism_pairs;
        self.max_bytes = self.max_bytes.max(o.max_bytes);
        self.reference_memo_hits += o.reference_memo_hits;
        self.followup_schedules += o.followup_schedules;
        for (k, v) in &o.fired {
            *self.fired.entry(k.clone()).or_insert(0) += v;
        }
        for (k, v) in &o.probes {
            *self.probes.entry(k.clone()).or_insert(0) += v;
        }
        for (k, v) in &o.by_mode {
            *self.by_mode.entry(k.clone()).or_insert(0) += v;
        }
        for (k, v) in &o.by_encoding {
            *self.by_encoding.entry(k.clone()).or_insert(0) += v;
        }
        for (k, v) in &o.by_policy {
            *self.by_policy.entry(k.clone()).or_insert(0) += v;
        }
        for (k, v) in &o.by_workers {
            *self.by_workers.entry(k.clone()).or_insert(0) += v;
        }
        self.interleavings.extend(o.interleavings.iter().copied());
        self.shapes.extend(o.shapes.iter().cloned());
    }
}

thread_local! {
    static REFERENCE_MEMO: std::cell::RefCell<std::collections::HashMap<u64, RunResult>> =
        std::cell::RefCell::new(std::collections::HashMap::new());
}

fn exit_nonzero(r: &RunResult) -> bool {
    !matches!(r.exit, Exit::Code(0) | Exit::ProcessExit(0))
}

fn harness_failure(r: &RunResult) -> Option<String> {
    match &r.exit {
        Exit::Timeout => Some("watchdog: child stalled".into()),
        Exit::Broken(m) => Some(format!("broken report: {m}")),
        _ => None,
    }
}

fn abnormal(r: &RunResult) -> bool {
    matches!(r.exit, Exit::Panic(_) | Exit::Signal(_) | Exit::Timeout | Exit::Broken(_))
}

fn is_write_side(op: OpKind) -> bool {
    matches!(
        op,
        OpKind::Write | OpKind::Seek | OpKind::SetLen | OpKind::Flush | OpKind::Sync | OpKind::Print
    )
}

fn summarize_diff(got: &[u8], want: &[u8]) -> String {
    let common = got.iter().zip(want.iter()).take_while(|(a, b)| a == b).count();
    let tail = if got.len() > want.len() && got[..want.len()] == *want {
        " (stale tail: expected bytes followed by leftovers)"
    } else if want.len() > got.len() && want[..got.len()] == *got {
        " (truncated: a proper prefix of the expected bytes)"
    } else {
        ""
    };
    format!(
        "got {} bytes, want {} bytes, first difference at offset {}{}",
        got.len(),
        want.len(),
        common,
        tail
    )
}

impl Case {
    pub fn option_args(&self) -> Vec<String> {
        let mut v = vec![];
        for (k, val) in &self.options {
            v.push("-C".to_string());
            v.push(format!("{k}={val}"));
        }
        v
    }

    pub fn toml(&self) -> String {
        let mut s = String::new();
        for (k, val) in &self.options {
            let quoted = matches!(k.as_str(), "begin_style" | "line_ending" | "encoding");
            if quoted {
                s.push_str(&format!("{k} = \"{val}\"\n"));
            } else {
                s.push_str(&format!("{k} = {val}\n"));
            }
        }
        s
    }

    pub fn configured_encoding(&self) -> &'static encoding_rs::Encoding {
        match self.options.iter().rev().find(|(k, _)| k == "encoding") {
            Some((_, l)) if !l.eq_ignore_ascii_case("native") => {
                encoding_rs::Encoding::for_label(l.as_bytes()).unwrap_or(encoding_rs::UTF_8)
            }
            _ => encoding_rs::UTF_8,
        }
    }

    /// An upper bound on the simulated steps a correct run of this case can need, times 8.
    pub fn step_budget(&self) -> u64 {
        let mut need: u64 = 64;
        for f in &self.files {
            let len = f.bytes.len() as u64;
            let per_op = |target: &str, op: OpKind| -> u64 {
                match self
                    .chunking
                    .iter()
                    .find(|c| c.target == target && c.op == op)
                    .map(|c| &c.policy)
                {
                    Some(ChunkPolicy::Fixed(k)) => (*k).max(1) as u64,
                    Some(ChunkPolicy::Random { .. }) => 1,
                    Some(ChunkPolicy::Boundaries(_)) => 1,
                    _ => 32,
                }
            };
            let t = if self.mode.is_stdin() { STDIN } else { &f.path };
            let tw = if self.mode.is_stdin() { STDOUT } else { &f.path };
            // reads of the input, writes of a result that may be a few times longer
            need += 2 * len / per_op(t, OpKind::Read).min(32) + 16;
            need += 8 * (len + 64) / per_op(tw, OpKind::Write) + 16;
        }
        need += 4 * self.faults.len() as u64;
        (8 * need).max(10_000)
    }

    fn base_scenario(&self, label: &str) -> Scenario {
        Scenario {
            property: self.property.clone(),
            label: label.to_string(),
            seed: self.seed,
            run: self.run,
            knobs: self.knobs.clone(),
            step_budget: self.step_budget(),
            ..Scenario::default()
        }
    }

    /// The invocation under test.
    pub fn to_scenario(&self) -> Scenario {
        let mut sc = self.base_scenario(self.mode.name());
        sc.argv = self.option_args();
        match self.mode {
            Mode::Files => {}
            Mode::Check | Mode::StdinCheck => sc.argv.extend(["--mode".into(), "check".into()]),
            Mode::Stdout => sc.argv.extend(["--mode".into(), "stdout".into()]),
            Mode::StdinStdout => {}
        }
        sc.argv.extend(self.extra_args.iter().cloned());
        if self.mode.is_stdin() {
            sc.stdin = self.files.first().map(|f| f.bytes.clone()).unwrap_or_default();
        } else {
            let paths_at = sc.argv.len();
            match self.path_form {
                PathForm::Explicit => {
                    if self.path_args.is_empty() {
                        for f in &self.files {
                            sc.argv.push(f.path.clone());
                        }
                    } else {
                        // an explicit argument list that differs from the file list (e.g. the
                        // same file named twice: the property quantifies over multisets)
                        sc.argv.extend(self.path_args.iter().cloned());
                    }
                    if self.explicit_real {
                        sc.real_tree = true;
                    }
                }
                PathForm::Directory | PathForm::Glob => {
                    sc.argv.extend(self.path_args.iter().cloned());
                    sc.real_tree = true;
                }
                PathForm::FilesFrom => {
                    let via_pipe = self.list_via_pipe;
                    sc.argv.extend(["--files-from".into(), if via_pipe { "/dev/stdin".into() } else { "files.lst".into() }]);
                    let mut list: Vec<u8> = vec![];
                    for (i, line) in self.path_args.iter().enumerate() {
                        if self.list_poison == Some(i) {
                            // a line that is not valid UTF-8 (a Latin-1 file name written by
                            // another tool): the list cannot be read as text
                            list.extend_from_slice(b"caf\xe9.pas\n");
                        }
                        list.extend_from_slice(line.as_bytes());
                        list.push(b'\n');
                    }
                    if via_pipe {
                        sc.real_stdin_pipe = Some(list);
                    } else {
                        sc.real_files = vec![RealFile {
                            path: "files.lst".to_string(),
                            bytes: list,
                        }];
                    }
                    sc.real_tree = true;
                }
            }
            if self.bogus_first {
                for (k, b) in self.bogus_paths.iter().enumerate() {
                    sc.argv.insert(paths_at + k, b.clone());
                }
            } else {
                sc.argv.extend(self.bogus_paths.iter().cloned());
            }
            sc.files = self.files.clone();
            if sc.real_tree {
                sc.symlinks = self.symlinks.clone();
            }
            // (only where real placeholders exist: the product tells one file from another by
            // asking the file system)
            if sc.real_tree {
                sc.hardlinks = self
                    .hardlinks
                    .iter()
                    .filter(|(a, t)| {
                        self.files.iter().any(|f| f.path == *a) && self.files.iter().any(|f| f.path == *t)
                    })
                    .cloned()
                    .collect();
                sc.links_copy_up = self.links_copy_up && !sc.hardlinks.is_empty();
                // one file has one content
                for (a, t) in sc.hardlinks.clone() {
                    if let Some(tb) = sc.files.iter().find(|f| f.path == t).map(|f| f.bytes.clone()) {
                        if let Some(af) = sc.files.iter_mut().find(|f| f.path == a) {
                            af.bytes = tb;
                        }
                    }
                }
            }
        }
        sc.workers = self.workers.max(1);
        sc.chunks = self.chunks.clone();
        sc.policy = self.policy.clone();
        sc.schedule = self.schedule.clone();
        sc.faults = self.faults.clone();
        sc.chunking = self.chunking.clone();
        sc
    }

    /// Formatting the bytes of file `i` from standard input, fault-free (C16's reference).
    pub fn stdin_reference(&self, i: usize) -> Scenario {
        let mut sc = self.base_scenario("reference:stdin");
        sc.argv = self.option_args();
        sc.stdin = self.files[i].bytes.clone();
        sc.knobs.stdout_tty = false;
        sc.knobs.stdin_tty = false;
        sc.workers = 1;
        sc
    }

    /// File `i` formatted alone: its own invocation, one worker, no faults (C18's reference).
    pub fn alone(&self, i: usize) -> Scenario {
        let mut sc = self.base_scenario("reference:alone");
        sc.argv = self.option_args();
        match self.mode {
            Mode::Check | Mode::StdinCheck => sc.argv.extend(["--mode".into(), "check".into()]),
            Mode::Stdout => sc.argv.extend(["--mode".into(), "stdout".into()]),
            _ => {}
        }
        sc.argv.extend(self.extra_args.iter().cloned());
        sc.argv.push(self.files[i].path.clone());
        sc.files = vec![self.files[i].clone()];
        // a second name of a file has that file's content
        let links: &[(String, String)] = if self.path_form == PathForm::Explicit { &[] } else { &self.hardlinks };
        if let Some((_, t)) = links.iter().find(|(a, _)| *a == self.files[i].path) {
            if let Some(tf) = self.files.iter().find(|f| f.path == *t) {
                sc.files[0].bytes = tf.bytes.clone();
            }
        }
        sc.workers = 1;
        sc
    }

    pub fn pure_reference(&self, text: &str) -> Scenario {
        let mut sc = self.base_scenario("reference:pure");
        sc.pure = Some(PureJob {
            toml: self.toml(),
            text: text.to_string(),
        });
        sc
    }

    pub fn evaluate(&self, stats: &mut Stats) -> Verdict {
        match self.property.as_str() {
            "C16" => self.evaluate_c16(stats),
            "C17" => self.evaluate_c17(stats),
            "C18" => self.evaluate_c18(stats),
            p => Verdict::HarnessError(format!("unknown property {p}")),
        }
    }

    fn run(&self, sc: &Scenario, stats: &mut Stats) -> RunResult {
        if sc.label.starts_with("reference:") {
            // Reference runs are pure functions of their scenario; their *results* (data, no
            // formatter state) are memoised in the parent so that the cases of one content
            // do not recompute them.
            let key = crate::rng::hash_bytes(serde_json::to_string(sc).unwrap().as_bytes());
            let hit = REFERENCE_MEMO.with(|m| m.borrow().get(&key).cloned());
            if let Some(r) = hit {
                stats.reference_memo_hits += 1;
                return r;
            }
            let r = run_reference(sc);
            stats.absorb_run(sc, &r);
            REFERENCE_MEMO.with(|m| {
                let mut m = m.borrow_mut();
                if m.len() >= 48 {
                    m.clear();
                }
                m.insert(key, r.clone());
            });
            return r;
        }
        let r = run_scenario(sc);
        stats.absorb_run(sc, &r);
        r
    }

    fn invariant_findings(r: &RunResult, out: &mut Vec<Finding>) {
        for inv in &r.invariants {
            let id = inv.split_whitespace().next().unwrap_or("invariant");
            out.push(Finding {
                oracle: format!("invariant.{id}"),
                detail: inv.clone(),
            });
        }
        if r.exit == Exit::Budget {
            out.push(Finding {
                oracle: "liveness.step_budget_exceeded".into(),
                detail: format!("more than the scenario's step budget ({} steps taken)", r.steps),
            });
        }
    }

    // ------------------------------------------------------------------------------ C16

    fn evaluate_c16(&self, stats: &mut Stats) -> Verdict {
        if self.files.is_empty() || (self.mode.is_stdin() && self.files.len() != 1) {
            return Verdict::HarnessError("C16 cases have one file (stdin modes) or a batch".into());
        }
        // (a) the reference, per file: the same content formatted from standard input, no faults
        let mut refs: Vec<RunResult> = vec![];
        for i in 0..self.files.len() {
            let ref_sc = self.stdin_reference(i);
            let ra = self.run(&ref_sc, stats);
            if let Some(m) = harness_failure(&ra) {
                if ra.exit == Exit::Timeout {
                    return Verdict::Discarded("reference run stalled (pure formatter)".into());
                }
                return Verdict::HarnessError(m);
            }
            if abnormal(&ra) || ra.exit == Exit::Budget {
                return Verdict::Discarded(format!("reference run aborted: {:?}", ra.exit));
            }
            refs.push(ra);
        }

        let sc = self.to_scenario();
        let r = self.run(&sc, stats);
        if let Some(m) = harness_failure(&r) {
            return Verdict::HarnessError(m);
        }
        let mut out = vec![];
        Self::invariant_findings(&r, &mut out);
        if r.exit == Exit::Budget {
            return Verdict::Judged(out);
        }
        if self.files.len() > 1 {
            stats.probe("c16_multi_file_batch_judged");
        }
        // An unreadable --files-from list is a failure of the invocation as a whole: nothing is
        // claimed about the files when it is reported (exit != 0); a run that claims success
        // must have treated every listed file like any other run.
        if self.list_poison.is_some() && self.path_form == PathForm::FilesFrom {
            stats.probe("c16_unreadable_files_from_list");
            if exit_nonzero(&r) {
                return Verdict::Judged(out);
            }
        }

        let mut any_must_fail = false;
        let mut any_write_fault = false;
        let mut all_formatted = true;
        let mut noncanonical: Vec<String> = vec![];
        let mut expected_blocks: Vec<Vec<u8>> = vec![];
        let mut blocks_judgeable = true;
        for (i, f) in self.files.iter().enumerate() {
            let original = &f.bytes;
            let reference = &refs[i].stdout;
            let decodable = !exit_nonzero(&refs[i]);
            let target_in = if self.mode.is_stdin() { STDIN } else { f.path.as_str() };
            let target_out = if self.mode.is_stdin() { STDOUT } else { f.path.as_str() };
            // "cannot be read" is a fact about the scenario (the file is missing / unreadable /
            // in files mode not writable, or a fatal fault was injected into its open or reads),
            // not about what the product chose to do: a product that fails to open a file it
            // could have opened is not excused
            let read_failed = !f.exists
                || !f.readable
                || (self.mode == Mode::Files && !f.writable)
                || r.fired.iter().any(|x| {
                    x.target == target_in && !x.kind.is_benign() && matches!(x.op, OpKind::Open | OpKind::Read)
                });
            let write_failed = r
                .fired
                .iter()
                .any(|x| !x.kind.is_benign() && is_write_side(x.op) && (x.target == target_out || x.target == STDOUT));
            let final_bytes = r.final_bytes(&sc, &f.path).map(|b| b.to_vec());
            let mutated = r.mutations.iter().any(|m| m.path == f.path)
                || (!self.mode.is_stdin() && f.exists && final_bytes.as_deref() != Some(&original[..]));
            let must_fail = read_failed || !decodable;
            any_must_fail |= must_fail;
            any_write_fault |= write_failed;
            if read_failed {
                stats.probe("c16_read_side_failure_judged");
            }
            if !decodable {
                stats.probe("c16_undecodable_content_judged");
            }
            if self.mode != Mode::Files && mutated {
                out.push(Finding {
                    oracle: "c16.readonly_mode_modified_file".into(),
                    detail: format!(
                        "mode {} modified {}: {:?}",
                        self.mode.name(),
                        f.path,
                        r.mutations.iter().find(|m| m.path == f.path)
                    ),
                });
            }
            if must_fail {
                if self.mode == Mode::Files && mutated {
                    out.push(Finding {
                        oracle: "c16.unreadable_file_modified".into(),
                        detail: format!(
                            "{} could not be read/decoded but was modified: {:?}",
                            f.path,
                            r.mutations.iter().find(|m| m.path == f.path)
                        ),
                    });
                }
                continue;
            }
            // Legacy multi-byte encodings have non-canonical byte forms (decode then encode does
            // not reproduce the input). pasfmt compares *texts*: such a file, when its text is
            // already formatted, is neither rewritten nor flagged although its bytes differ from
            // what the stdin invocation prints.
            let same_text_other_bytes = original != reference && {
                let a = codec::ref_read(self.configured_encoding(), original);
                let b = codec::ref_read(self.configured_encoding(), reference);
                matches!((&a.text, &b.text), (Ok(x), Ok(y)) if x == y) && a.enc == b.enc
            };
            if same_text_other_bytes {
                stats.probe("c16_noncanonical_bytes_of_formatted_text");
                noncanonical.push(f.path.clone());
            } else if original != reference {
                all_formatted = false;
            }
            if write_failed {
                stats.probe("c16_write_side_failure_judged");
                blocks_judgeable = false;
                // a reported failure leaves the content unconstrained; a run that claims success
                // (exit 0) must have produced the right bytes all the same
                if !exit_nonzero(&r) {
                    let wrong = match self.mode {
                        Mode::Files => final_bytes.as_deref() != Some(&reference[..]),
                        Mode::StdinStdout => !self.knobs.stdout_tty && &r.stdout != reference,
                        _ => false,
                    };
                    if wrong {
                        out.push(Finding {
                            oracle: "c16.silent_write_failure".into(),
                            detail: format!(
                                "a write-side operation failed ({:?}) but the exit status is 0 and the {} does not hold the stdin result",
                                r.fired.iter().find(|x| !x.kind.is_benign() && is_write_side(x.op)).map(|x| (x.op, x.kind.name())),
                                if self.mode == Mode::Files { "file" } else { "output" }
                            ),
                        });
                    }
                }
                continue;
            }
            match self.mode {
                Mode::Files => {
                    let got = final_bytes.unwrap_or_default();
                    if same_text_other_bytes && &got == original {
                        out.push(Finding {
                            oracle: "c16.noncanonical_input_left_as_is".into(),
                            detail: format!("{}: text already formatted, bytes are a non-canonical form in {}: file keeps its bytes, stdin prints the canonical ones", f.path, self.configured_encoding().name()),
                        });
                    } else if &got != reference {
                        out.push(Finding {
                            oracle: "c16.files_ne_stdin".into(),
                            detail: format!("{}: {}", f.path, summarize_diff(&got, reference)),
                        });
                    }
                    if reference.len() < original.len() {
                        stats.probe("c16_result_shorter_than_original");
                    } else if reference.len() > original.len() {
                        stats.probe("c16_result_longer_than_original");
                    } else {
                        stats.probe("c16_result_same_length");
                    }
                    if !r.mutations.iter().any(|m| m.path == f.path) {
                        stats.probe("c16_write_skipped_already_formatted");
                    }
                }
                Mode::Stdout => {
                    // the block is the formatted *text* as UTF-8 (documented in the code);
                    // judged only when the reference decodes under the reference codec
                    let rf = codec::ref_read(self.configured_encoding(), reference);
                    match rf.text {
                        Ok(text) => expected_blocks.push(format!("{}:\n{}\n", f.path, text).into_bytes()),
                        Err(()) => blocks_judgeable = false,
                    }
                }
                _ => {}
            }
        }

        // exit status and streams, over the whole invocation
        if !self.bogus_paths.is_empty() {
            any_must_fail = true;
            stats.probe("c16_bogus_path_argument_in_batch");
        }
        if any_must_fail {
            if !exit_nonzero(&r) {
                out.push(Finding {
                    oracle: "c16.unreadable_exit_zero".into(),
                    detail: format!(
                        "an input could not be read/decoded but exit status is {:?} in mode {}",
                        r.exit,
                        self.mode.name()
                    ),
                });
            }
        } else if any_write_fault {
            // content and exit status after a write-side failure are C18's subject
        } else {
            match self.mode {
                Mode::Files => {
                    if exit_nonzero(&r) {
                        out.push(Finding {
                            oracle: "c16.files_mode_failed".into(),
                            detail: format!(
                                "files mode failed ({:?}) although the same content formats from stdin; log: {:?}",
                                r.exit,
                                r.logs.iter().find(|l| l.0 == "ERROR")
                            ),
                        });
                    }
                }
                Mode::Check | Mode::StdinCheck => {
                    if all_formatted {
                        stats.probe("c16_check_on_formatted_content");
                    } else {
                        stats.probe("c16_check_on_unformatted_content");
                    }
                    if all_formatted && !noncanonical.is_empty() {
                        if !exit_nonzero(&r) {
                            out.push(Finding {
                                oracle: "c16.noncanonical_input_passes_check".into(),
                                detail: format!("{:?}: text already formatted but the bytes differ from the stdin result (non-canonical form in {}); check exits 0", noncanonical, self.configured_encoding().name()),
                            });
                        }
                    } else if all_formatted == exit_nonzero(&r) {
                        out.push(Finding {
                            oracle: "c16.check_exit_mismatch".into(),
                            detail: format!(
                                "content {} the stdin result but check exit is {:?}",
                                if all_formatted { "equals" } else { "differs from" },
                                r.exit
                            ),
                        });
                    }
                }
                Mode::Stdout => {
                    if exit_nonzero(&r) {
                        out.push(Finding {
                            oracle: "c16.stdout_mode_failed".into(),
                            detail: format!("stdout mode failed: {:?} {:?}", r.exit, r.logs.iter().find(|l| l.0 == "ERROR")),
                        });
                    }
                }
                Mode::StdinStdout => {
                    if self.knobs.stdout_tty {
                        stats.probe("c16_stdout_is_terminal_unasserted");
                    } else if exit_nonzero(&r) {
                        out.push(Finding {
                            oracle: "c16.stdin_mode_failed_under_benign_faults".into(),
                            detail: format!("{:?} {:?}", r.exit, r.logs.first()),
                        });
                    } else if r.stdout != refs[0].stdout {
                        out.push(Finding {
                            oracle: "c16.stdin_result_changed_by_benign_faults".into(),
                            detail: summarize_diff(&r.stdout, &refs[0].stdout),
                        });
                    }
                }
            }
        }
        if self.mode == Mode::Stdout && blocks_judgeable {
            let blocks: Vec<&[u8]> = expected_blocks.iter().map(|b| &b[..]).collect();
            if !blocks_are_permutation(&r.stdout, &blocks, &[]) {
                out.push(Finding {
                    oracle: "c16.stdout_mode_text_ne_stdin".into(),
                    detail: format!(
                        "stdout ({} bytes) is not the concatenation of the {} expected `path:` blocks",
                        r.stdout.len(),
                        blocks.len()
                    ),
                });
            }
        }
        Verdict::Judged(out)
    }

    // ------------------------------------------------------------------------------ C17

    fn evaluate_c17(&self, stats: &mut Stats) -> Verdict {
        if self.files.len() != 1 {
            return Verdict::HarnessError("C17 cases have exactly one file".into());
        }
        let f = &self.files[0];
        let original = &f.bytes;
        let rf = codec::ref_read(self.configured_encoding(), original);
        let bom = &original[..rf.bom_len];

        // expected bytes, computed without the product's codec
        enum Expect {
            Malformed,
            /// `unchanged`: the text is already formatted, so files mode has nothing to write
            /// (and then nothing to encode: exit 0 with the file left alone is correct)
            Unencodable { unchanged: bool },
            Bytes { unchanged: bool, bytes: Vec<u8> },
        }
        let expect = match &rf.text {
            Err(()) => Expect::Malformed,
            Ok(text) => {
                let psc = self.pure_reference(text);
                let pr = self.run(&psc, stats);
                if pr.exit == Exit::Timeout || abnormal(&pr) {
                    if let Exit::Broken(m) = &pr.exit {
                        return Verdict::HarnessError(format!("pure reference: {m}"));
                    }
                    return Verdict::Discarded(format!("pure formatter aborted: {:?}", pr.exit));
                }
                let Some(formatted) = pr.pure_out else {
                    return Verdict::HarnessError("pure reference produced no output".into());
                };
                match codec::ref_encode(rf.enc, &formatted) {
                    Err(_) => Expect::Unencodable {
                        unchanged: &formatted == text,
                    },
                    Ok(body) => {
                        let mut bytes = bom.to_vec();
                        bytes.extend_from_slice(&body);
                        Expect::Bytes {
                            unchanged: &formatted == text,
                            bytes,
                        }
                    }
                }
            }
        };

        let sc = self.to_scenario();
        let r = self.run(&sc, stats);
        if let Some(m) = harness_failure(&r) {
            return Verdict::HarnessError(m);
        }
        let mut out = vec![];
        Self::invariant_findings(&r, &mut out);
        if r.exit == Exit::Budget {
            return Verdict::Judged(out);
        }
        let target_in = if self.mode.is_stdin() { STDIN } else { f.path.as_str() };
        let read_failed = r.fired.iter().any(|x| {
            x.target == target_in && !x.kind.is_benign() && matches!(x.op, OpKind::Open | OpKind::Read)
        });
        let write_failed = r
            .fired
            .iter()
            .any(|x| !x.kind.is_benign() && is_write_side(x.op));
        let final_bytes = r.final_bytes(&sc, &f.path).map(|b| b.to_vec());
        let file_mutated = !r.mutations.is_empty()
            || (!self.mode.is_stdin() && final_bytes.as_deref() != Some(&original[..]));

        if rf.bom_len > 0 && rf.enc != self.configured_encoding() {
            stats.probe("c17_bom_overrides_configured_encoding");
        }
        match (&expect, read_failed) {
            (Expect::Malformed, _) => {
                stats.probe("c17_malformed_input_judged");
                if !exit_nonzero(&r) {
                    out.push(Finding {
                        oracle: "c17.malformed_accepted".into(),
                        detail: format!("input is malformed in {} but exit status is {:?}", rf.enc.name(), r.exit),
                    });
                }
                if file_mutated {
                    out.push(Finding {
                        oracle: "c17.malformed_rewritten".into(),
                        detail: format!("malformed input was rewritten: {:?}", r.mutations.first()),
                    });
                }
                if self.mode == Mode::StdinStdout && !r.stdout.is_empty() {
                    out.push(Finding {
                        oracle: "c17.malformed_stdin_printed".into(),
                        detail: format!("{} bytes printed for malformed stdin", r.stdout.len()),
                    });
                }
            }
            (_, true) => {
                if !exit_nonzero(&r) {
                    out.push(Finding {
                        oracle: "c17.read_failure_exit_zero".into(),
                        detail: format!("{:?}", r.exit),
                    });
                }
                if file_mutated {
                    out.push(Finding {
                        oracle: "c17.read_failure_file_modified".into(),
                        detail: format!("{:?}", r.mutations.first()),
                    });
                }
            }
            (Expect::Unencodable { unchanged }, false) => {
                stats.probe("c17_unencodable_result_judged");
                if *unchanged && self.mode == Mode::Files {
                    stats.probe("c17_unencodable_but_already_formatted");
                } else if self.mode == Mode::StdinStdout && self.knobs.stdout_tty {
                    // a terminal gets the text itself, not its encoding: nothing to encode
                    stats.probe("c17_stdout_is_terminal_unasserted");
                } else if !exit_nonzero(&r) {
                    out.push(Finding {
                        oracle: "c17.unencodable_result_exit_zero".into(),
                        detail: format!("{:?}", r.exit),
                    });
                }
                if file_mutated {
                    out.push(Finding {
                        oracle: "c17.unencodable_result_file_modified".into(),
                        detail: format!("{:?}", r.mutations.first()),
                    });
                }
            }
            (Expect::Bytes { unchanged, bytes }, false) => {
                if write_failed {
                    stats.probe("c17_write_side_failure_judged");
                    if !exit_nonzero(&r) {
                        let wrong = match self.mode {
                            Mode::Files => {
                                let want: &[u8] = if *unchanged { original } else { bytes };
                                final_bytes.as_deref() != Some(want) && final_bytes.as_deref() != Some(&bytes[..])
                            }
                            Mode::StdinStdout => !self.knobs.stdout_tty && &r.stdout != bytes,
                            _ => false,
                        };
                        if wrong {
                            out.push(Finding {
                                oracle: "c17.silent_write_failure".into(),
                                detail: format!(
                                    "a write-side operation failed ({:?}) but the exit status is 0 and the bytes are not BOM + encode(format(decode(input)))",
                                    r.fired.iter().find(|x| !x.kind.is_benign() && is_write_side(x.op)).map(|x| (x.op, x.kind.name()))
                                ),
                            });
                        }
                    }
                } else if self.mode == Mode::Files {
                    if exit_nonzero(&r) {
                        out.push(Finding {
                            oracle: "c17.files_mode_failed".into(),
                            detail: format!("{:?} {:?}", r.exit, r.logs.iter().find(|l| l.0 == "ERROR")),
                        });
                    } else {
                        let got = final_bytes.unwrap_or_default();
                        let want: &[u8] = if *unchanged { original } else { bytes };
                        if *unchanged {
                            stats.probe("c17_text_unchanged");
                        } else {
                            stats.probe("c17_text_changed_and_written");
                        }
                        // an unchanged text may be left alone or be written back; if it is
                        // written, the bytes written must be the reference bytes
                        let rewritten_correctly = *unchanged && got == *bytes;
                        if got != want && !rewritten_correctly {
                            out.push(Finding {
                                oracle: "c17.written_bytes_ne_reference".into(),
                                detail: format!(
                                    "encoding {} bom_len {}: {}",
                                    rf.enc.name(),
                                    rf.bom_len,
                                    summarize_diff(&got, want)
                                ),
                            });
                        }
                    }
                } else if self.mode == Mode::StdinStdout {
                    if self.knobs.stdout_tty {
                        stats.probe("c17_stdout_is_terminal_unasserted");
                    } else if exit_nonzero(&r) {
                        out.push(Finding {
                            oracle: "c17.stdin_mode_failed".into(),
                            detail: format!("{:?} {:?}", r.exit, r.logs.iter().find(|l| l.0 == "ERROR")),
                        });
                    } else if &r.stdout != bytes {
                        out.push(Finding {
                            oracle: "c17.stdout_bytes_ne_reference".into(),
                            detail: format!(
                                "encoding {} bom_len {}: {}",
                                rf.enc.name(),
                                rf.bom_len,
                                summarize_diff(&r.stdout, bytes)
                            ),
                        });
                    }
                }
            }
        }
        Verdict::Judged(out)
    }

    // ------------------------------------------------------------------------------ C18

    fn evaluate_c18(&self, stats: &mut Stats) -> Verdict {
        if self.mode.is_stdin() || self.files.is_empty() {
            return Verdict::HarnessError("C18 cases are path batches".into());
        }
        // each file alone: its own pristine invocation
        let mut alone: Vec<(Scenario, RunResult)> = vec![];
        let mut missing_template: Option<(usize, RunResult)> = None;
        let mut missing_run = 0;
        let mut core_panic = vec![false; self.files.len()];
        for i in 0..self.files.len() {
            let sc = self.alone(i);
            // wide batches of non-existent paths: the alone invocation of a missing file differs
            // from that of another missing file only by the path it names; after the first four,
            // the result is derived from the first one instead of being run again
            if !self.files[i].exists {
                if let (true, Some((t, tr))) = (missing_run >= 4, &missing_template) {
                    let from = self.files[*t].path.clone();
                    let to = self.files[i].path.clone();
                    let mut r = tr.clone();
                    for l in r.logs.iter_mut() {
                        l.1 = l.1.replace(&from, &to);
                    }
                    r.files.clear();
                    alone.push((sc, r));
                    continue;
                }
                missing_run += 1;
            }
            let r = self.run(&sc, stats);
            if !self.files[i].exists && missing_template.is_none() {
                missing_template = Some((i, r.clone()));
            }
            // A panic inside pasfmt-core on this content alone is the pure formatter's business
            // (C04) and makes the content unusable here. A panic anywhere else (the I/O layer,
            // main) is simply how this file fails when it is alone: exit status non-zero.
            // (pasfmt-core is a path dependency: its panic locations read `<repo>/core/src/...`;
            // the standard library's own `core` reads `/rustc/<hash>/library/core/src/...`)
            let repo = std::env::var("PASFMT_REPO").unwrap_or_else(|_| "/repo".to_string());
            let io_layer_panic = matches!(r.exit, Exit::Panic(_))
                && !r.real_stderr.contains(&format!("{repo}/core/src/"));
            // Cursors are tracked for a single path only: with `--cursor` the alone invocation of a
            // file runs code that a batch of several paths does not. A panic there (a cursor inside
            // a multi-byte character makes the reconstructor slice a `str` off a boundary; the
            // location reported is libcore's) says nothing about the batch, so the alone run is no
            // reference for this case.
            let tracks_cursors = self.extra_args.iter().any(|a| a.starts_with("--cursor"));
            if tracks_cursors && self.files.len() > 1 && matches!(r.exit, Exit::Panic(_)) {
                stats.probe("c18_alone_run_with_cursor_tracking_panics");
                return Verdict::Discarded(format!("alone run of file {i} panics while tracking cursors"));
            }
            if io_layer_panic {
                stats.probe("c18_file_whose_alone_run_panics_outside_the_core");
            }
            // A panic inside pasfmt-core is also how this file fails alone (exit status 101, file
            // untouched); what the batch does to the *other* files is C18's business. In the
            // generators such content is replaced by the pre-screen, except for a few fixed
            // inputs planted on purpose (see `CORE_PANIC_CANARIES`).
            let core_layer_panic = matches!(r.exit, Exit::Panic(_)) && !io_layer_panic;
            if core_layer_panic && self.files.len() > 1 {
                core_panic[i] = true;
                stats.probe("c18_file_whose_alone_run_panics_inside_the_core");
            }
            if (r.exit == Exit::Timeout || abnormal(&r) || r.exit == Exit::Budget) && !io_layer_panic && !core_panic[i] {
                if let Exit::Broken(m) = &r.exit {
                    return Verdict::HarnessError(format!("alone run: {m}"));
                }
                return Verdict::Discarded(format!("alone run of file {i} aborted: {:?}", r.exit));
            }
            alone.push((sc, r));
        }
        let sc = self.to_scenario();
        let r = self.run(&sc, stats);
        if let Some(m) = harness_failure(&r) {
            return Verdict::HarnessError(m);
        }
        let mut out = vec![];
        Self::invariant_findings(&r, &mut out);
        if r.exit == Exit::Budget {
            return Verdict::Judged(out);
        }
        // An invocation of a single path legitimately prints `CURSOR=` to stderr; if that write was
        // made to fail, the run is a failed run of that invocation, not a batch to compare (the
        // generators only make stderr fail for two or more paths, where nothing may be printed
        // there; this is reached by shrinking a failing case).
        if self.files.len() + self.bogus_paths.len() <= 1
            && r.fired.iter().any(|x| x.target == "<stderr>" && !x.kind.is_benign())
        {
            return Verdict::Discarded("single path with a failing stderr".into());
        }
        // the whole batch process died (stack overflow abort, segmentation fault) although every
        // file could be handled by its own invocation
        if let Exit::Signal(sig) = r.exit {
            let deepest = self
                .files
                .iter()
                .map(|f| max_nesting(&f.bytes))
                .max()
                .unwrap_or(0);
            out.push(Finding {
                oracle: "c18.batch_killed_by_signal".into(),
                detail: format!(
                    "the batch process was killed by signal {sig} (6 = abort, e.g. stack overflow on a pool thread; 11 = segmentation fault) although each file is handled by its own invocation; deepest begin-nesting among the files: {deepest}"
                ),
            });
            return Verdict::Judged(out);
        }

        // a file that panics inside pasfmt-core was in the batch and the batch ended in that panic
        let repo = std::env::var("PASFMT_REPO").unwrap_or_else(|_| "/repo".to_string());
        let batch_core_panic = core_panic.iter().any(|x| *x)
            && matches!(r.exit, Exit::Panic(_))
            && r.real_stderr.contains(&format!("{repo}/core/src/"));
        let panic_site = r
            .real_stderr
            .lines()
            .find(|l| l.contains("panicked at"))
            // (only the location: the line also carries the OS thread id, which differs per run)
            .and_then(|l| l.split("panicked at ").nth(1))
            .map(|l| l.trim_end_matches(':').replace(&repo, "<repo>"))
            .unwrap_or_default();
        let mut any_failed = false;
        let mut expected_blocks: Vec<&[u8]> = vec![];
        // a file named k times may legitimately be printed 1..k times
        let mut optional_blocks: Vec<&[u8]> = vec![];
        let mut judged_logs: Vec<&(String, String)> = vec![];
        // (names whose link breaks on the first write are simply two files)
        let linked = |p: &str| !sc.links_copy_up && sc.hardlinks.iter().any(|(a, t)| a == p || t == p);
        for (i, f) in self.files.iter().enumerate() {
            let read_fault = r.read_failed.iter().any(|(p, _)| *p == f.path)
                && r.fired.iter().any(|x| x.target == f.path && !x.kind.is_benign() && !is_write_side(x.op));
            let write_fault = r
                .fired
                .iter()
                .any(|x| x.target == f.path && !x.kind.is_benign() && is_write_side(x.op));
            let group_fault = linked(&f.path)
                && r.fired.iter().any(|x| {
                    !x.kind.is_benign()
                        && sc.hardlinks.iter().any(|(a, t)| {
                            (a == &f.path || t == &f.path) && (x.target == *a || x.target == *t)
                        })
                });
            let read_fault = read_fault || group_fault;
            let (asc, ar) = &alone[i];
            let alone_failed = exit_nonzero(ar);
            any_failed |= read_fault || write_fault || alone_failed;
            let got = r.final_bytes(&sc, &f.path);
            let named = sc.argv.iter().filter(|a| **a == f.path).count();
            if (read_fault || write_fault) && linked(&f.path) {
                // one of the accesses to a file with two names failed: nothing is claimed
                stats.probe("c18_linked_file_with_injected_failure_unconstrained");
                if !alone[i].1.stdout.is_empty() {
                    optional_blocks.push(&alone[i].1.stdout);
                }
            } else if read_fault && named > 1 {
                // one of several accesses to the same file failed: nothing is claimed about it
                stats.probe("c18_repeated_file_with_injected_failure_unconstrained");
                if !alone[i].1.stdout.is_empty() {
                    for _ in 0..named {
                        optional_blocks.push(&alone[i].1.stdout);
                    }
                }
            } else if read_fault {
                stats.probe("c18_file_with_injected_read_failure");
                let orig = if f.exists { Some(&f.bytes[..]) } else { None };
                if got != orig {
                    out.push(Finding {
                        oracle: "c18.failed_file_modified".into(),
                        detail: format!("file {} ({}) failed to read but was changed", i, f.path),
                    });
                }
            } else if write_fault {
                stats.probe("c18_file_with_injected_write_failure");
            } else {
                if alone_failed {
                    stats.probe("c18_file_failing_on_its_own");
                }
                let mut want = ar.final_bytes(asc, &f.path);
                if linked(&f.path) {
                    // The names of one file share its content: what the file must hold in the end
                    // is what a name that can be formatted alone gives it (a second name that
                    // fails alone, e.g. one that is not writable, changes nothing).
                    let member = self.files.iter().enumerate().find(|(j, m)| {
                        !exit_nonzero(&alone[*j].1)
                            && sc.hardlinks.iter().any(|(a, t)| {
                                (a == &f.path || t == &f.path) && (a == &m.path || t == &m.path)
                            })
                    });
                    if let Some((j, m)) = member {
                        want = alone[j].1.final_bytes(&alone[j].0, &m.path);
                    }
                }
                // A file reachable under two names (named twice, or hard-linked) may be formatted
                // once or once per name, one after the other: formatting its formatted text again
                // is then also what "alone" gives it.
                let mut twice: Option<Vec<u8>> = None;
                if got != want && (named > 1 || linked(&f.path)) {
                    if let Some(w) = want {
                        let mut again = asc.clone();
                        again.files[0].bytes = w.to_vec();
                        let r2 = self.run(&again, stats);
                        twice = r2.final_bytes(&again, &f.path).map(|b| b.to_vec());
                        stats.probe("c18_file_with_two_names_compared_with_second_pass");
                    }
                }
                let orig = if f.exists { Some(&f.bytes[..]) } else { None };
                if got != want && batch_core_panic && !core_panic[i] && got == orig {
                    // the unwinding panic of another file took this worker's remaining share of
                    // the batch with it
                    out.push(Finding {
                        oracle: "c18.file_not_processed_after_panic_elsewhere".into(),
                        detail: format!(
                            "file {} ({}) is formatted when alone but was left untouched by the batch, which ended in a pasfmt-core panic on another file [{}]",
                            i, f.path, panic_site
                        ),
                    });
                } else if got != want && !(twice.is_some() && got == twice.as_deref()) {
                    out.push(Finding {
                        oracle: "c18.batch_ne_alone".into(),
                        detail: format!(
                            "file {} ({}): {}",
                            i,
                            f.path,
                            summarize_diff(got.unwrap_or_default(), want.unwrap_or_default())
                        ),
                    });
                }
                if linked(&f.path) {
                    // one file under two names: whether it is handled (printed, reported) once or
                    // once per name is not something the property fixes
                    if !ar.stdout.is_empty() {
                        optional_blocks.push(&ar.stdout);
                    }
                } else {
                    if !ar.stdout.is_empty() {
                        expected_blocks.push(&ar.stdout);
                        let named = sc.argv.iter().filter(|a| **a == f.path).count();
                        for _ in 1..named {
                            optional_blocks.push(&ar.stdout);
                        }
                    }
                    judged_logs.extend(ar.logs.iter());
                }
            }
        }
        if !self.bogus_paths.is_empty() {
            any_failed = true;
            stats.probe("c18_bogus_path_argument_in_batch");
        }
        if batch_core_panic {
            // files that were never reached print and report nothing: already judged above
            optional_blocks.append(&mut expected_blocks);
            judged_logs.clear();
        }
        if exit_nonzero(&r) != any_failed {
            out.push(Finding {
                oracle: "c18.exit_status_mismatch".into(),
                detail: format!(
                    "exit {:?} but {} failed",
                    r.exit,
                    if any_failed { "at least one file" } else { "no file" }
                ),
            });
        }
        // stdout: the blocks of the files that were not made to fail, each contiguous, any order
        let faulted_print = r.fired.iter().any(|x| x.op == OpKind::Print && !x.kind.is_benign());
        if !faulted_print && !blocks_are_permutation(&r.stdout, &expected_blocks, &optional_blocks) {
            out.push(Finding {
                oracle: "c18.stdout_blocks_mismatch".into(),
                detail: format!(
                    "stdout ({} bytes) is not a concatenation of the {} per-file blocks",
                    r.stdout.len(),
                    expected_blocks.len()
                ),
            });
        }
        // every error a file produces alone is also reported in the batch
        let mut pool: Vec<&(String, String)> = r.logs.iter().collect();
        for rec in judged_logs {
            match pool.iter().position(|p| *p == rec) {
                Some(ix) => {
                    pool.swap_remove(ix);
                }
                None => {
                    out.push(Finding {
                        oracle: "c18.report_missing_in_batch".into(),
                        detail: format!("alone reports {:?}; the batch does not", rec.1.lines().next()),
                    });
                    break;
                }
            }
        }
        Verdict::Judged(out)
    }
}

/// Longest run of consecutive lines that are just `begin` (a cheap measure of block nesting).
pub fn max_nesting(bytes: &[u8]) -> usize {
    let mut best = 0;
    let mut cur = 0;
    for line in bytes.split(|b| *b == b'\n') {
        let t: Vec<u8> = line.iter().copied().filter(|b| !b.is_ascii_whitespace() && *b != 0).collect();
        if t.eq_ignore_ascii_case(b"begin") {
            cur += 1;
            best = best.max(cur);
        } else {
            cur = 0;
        }
    }
    best
}

/// True when `got` is the concatenation, in some order, of all `required` blocks plus any
/// subset of the `optional` ones.
fn blocks_are_permutation(got: &[u8], required: &[&[u8]], optional: &[&[u8]]) -> bool {
    let blocks: Vec<&[u8]> = required.iter().chain(optional.iter()).copied().collect();
    let n_req = required.len();
    fn rec(got: &[u8], blocks: &[&[u8]], n_req: usize, used: &mut Vec<bool>, depth: &mut u32) -> bool {
        if got.is_empty() && used[..n_req].iter().all(|u| *u) {
            return true;
        }
        *depth += 1;
        if *depth > 100_000 {
            return true; // give up rather than raise a doubtful alarm
        }
        for i in 0..blocks.len() {
            if !used[i] && !blocks[i].is_empty() && got.starts_with(blocks[i]) {
                // identical blocks of the same class are interchangeable
                if (0..i).any(|j| !used[j] && blocks[j] == blocks[i] && (j < n_req) == (i < n_req)) {
                    continue;
                }
                used[i] = true;
                if rec(&got[blocks[i].len()..], blocks, n_req, used, depth) {
                    return true;
                }
                used[i] = false;
            }
        }
        false
    }
    let mut used = vec![false; blocks.len()];
    // empty required blocks are trivially present
    for (i, b) in blocks.iter().enumerate() {
        if b.is_empty() {
            used[i] = true;
        }
    }
    let mut depth = 0;
    rec(got, &blocks, n_req, &mut used, &mut depth)
}
