//! Reference codec, independent of the product's decode/encode path: BOM sniffing by hand,
//! UTF-8 through `std::str`, UTF-16 through `char::{decode_utf16, encode_utf16}`, legacy
//! encodings through encoding_rs's *streaming* Decoder/Encoder in without-replacement mode, fed
//! in small pieces (the product uses the one-shot `decode_without_bom_handling` / `encode`).
//! The encoding tables themselves are trusted.

use encoding_rs::{DecoderResult, EncoderResult, Encoding, UTF_16BE, UTF_16LE, UTF_8};

pub fn sniff_bom(b: &[u8]) -> Option<(&'static Encoding, usize)> {
    if b.len() >= 3 && b[0] == 0xEF && b[1] == 0xBB && b[2] == 0xBF {
        Some((UTF_8, 3))
    } else if b.len() >= 2 && b[0] == 0xFF && b[1] == 0xFE {
        Some((UTF_16LE, 2))
    } else if b.len() >= 2 && b[0] == 0xFE && b[1] == 0xFF {
        Some((UTF_16BE, 2))
    } else {
        None
    }
}

pub fn bom_for(enc: &'static Encoding) -> Option<&'static [u8]> {
    if enc == UTF_8 {
        Some(&[0xEF, 0xBB, 0xBF])
    } else if enc == UTF_16LE {
        Some(&[0xFF, 0xFE])
    } else if enc == UTF_16BE {
        Some(&[0xFE, 0xFF])
    } else {
        None
    }
}

/// Decodes `bytes` (no BOM handling). Err = malformed in this encoding.
pub fn ref_decode(enc: &'static Encoding, bytes: &[u8]) -> Result<String, ()> {
    if enc == UTF_8 {
        return std::str::from_utf8(bytes).map(|s| s.to_string()).map_err(|_| ());
    }
    if enc == UTF_16LE || enc == UTF_16BE {
        if bytes.len() % 2 != 0 {
            return Err(());
        }
        let units = bytes.chunks(2).map(|c| {
            if enc == UTF_16LE {
                u16::from_le_bytes([c[0], c[1]])
            } else {
                u16::from_be_bytes([c[0], c[1]])
            }
        });
        let mut out = String::with_capacity(bytes.len());
        for r in char::decode_utf16(units) {
            out.push(r.map_err(|_| ())?);
        }
        return Ok(out);
    }
    let mut dec = enc.new_decoder_without_bom_handling();
    let mut out = String::new();
    let mut pos = 0usize;
    // streaming, 7 bytes at a time
    loop {
        let end = (pos + 7).min(bytes.len());
        let last = end == bytes.len();
        let mut src = &bytes[pos..end];
        loop {
            out.reserve(dec.max_utf8_buffer_length_without_replacement(src.len()).unwrap_or(64) + 8);
            let (res, read) = dec.decode_to_string_without_replacement(src, &mut out, last);
            src = &src[read..];
            match res {
                DecoderResult::InputEmpty => break,
                DecoderResult::OutputFull => continue,
                DecoderResult::Malformed(_, _) => return Err(()),
            }
        }
        pos = end;
        if last {
            break;
        }
    }
    Ok(out)
}

/// Encodes `text`. Err(c) = `c` is not representable in this encoding.
pub fn ref_encode(enc: &'static Encoding, text: &str) -> Result<Vec<u8>, char> {
    if enc == UTF_8 {
        return Ok(text.as_bytes().to_vec());
    }
    if enc == UTF_16LE || enc == UTF_16BE {
        let mut out = Vec::with_capacity(text.len() * 2);
        let mut buf = [0u16; 2];
        for c in text.chars() {
            for u in c.encode_utf16(&mut buf) {
                if enc == UTF_16LE {
                    out.extend_from_slice(&u.to_le_bytes());
                } else {
                    out.extend_from_slice(&u.to_be_bytes());
                }
            }
        }
        return Ok(out);
    }
    if enc.output_encoding() != enc {
        // e.g. the "replacement" encoding: nothing can be written in it
        return Err(text.chars().next().unwrap_or('\0'));
    }
    let mut encoder = enc.new_encoder();
    let mut out: Vec<u8> = Vec::new();
    // streaming, a few characters at a time
    let mut rest = text;
    loop {
        let mut cut = rest.len().min(5);
        while !rest.is_char_boundary(cut) {
            cut += 1;
        }
        let (mut piece, tail) = rest.split_at(cut);
        let last = tail.is_empty();
        loop {
            out.reserve(
                encoder
                    .max_buffer_length_from_utf8_without_replacement(piece.len())
                    .unwrap_or(64)
                    + 16,
            );
            let (res, read) = encoder.encode_from_utf8_to_vec_without_replacement(piece, &mut out, last);
            piece = &piece[read..];
            match res {
                EncoderResult::InputEmpty => break,
                EncoderResult::OutputFull => continue,
                EncoderResult::Unmappable(c) => return Err(c),
            }
        }
        rest = tail;
        if last {
            break;
        }
    }
    Ok(out)
}

pub fn representable(enc: &'static Encoding, c: char) -> bool {
    let mut b = [0u8; 4];
    ref_encode(enc, c.encode_utf8(&mut b)).is_ok()
}

/// Replaces every character that cannot be written in `enc` by `?`.
pub fn make_representable(enc: &'static Encoding, text: &str) -> String {
    if enc == UTF_8 || enc == UTF_16LE || enc == UTF_16BE {
        return text.to_string();
    }
    let mut cache: std::collections::HashMap<char, bool> = std::collections::HashMap::new();
    text.chars()
        .map(|c| {
            let ok = if c.is_ascii_graphic() || c == ' ' || c == '\n' || c == '\r' || c == '\t' {
                // not universally true (ISO-2022-JP has none of these as exceptions), checked below
                true
            } else {
                *cache.entry(c).or_insert_with(|| representable(enc, c))
            };
            if ok {
                c
            } else {
                '?'
            }
        })
        .collect()
}

pub struct RefFile {
    /// the encoding that governs the file: the BOM's if there is one, else the configured one
    pub enc: &'static Encoding,
    pub bom_len: usize,
    /// Err = malformed
    pub text: Result<String, ()>,
}

pub fn ref_read(configured: &'static Encoding, bytes: &[u8]) -> RefFile {
    let (enc, bom_len) = sniff_bom(bytes).unwrap_or((configured, 0));
    RefFile {
        enc,
        bom_len,
        text: ref_decode(enc, &bytes[bom_len..]),
    }
}

/// All encodings the `encoding` option can select that can represent text (labels accepted by
/// `Encoding::for_label`); "replacement" is excluded because no text is representable in it.
pub const ENCODING_LABELS: &[&str] = &[
    "utf-8", "utf-16le", "utf-16be",
    "ibm866", "iso-8859-2", "iso-8859-3", "iso-8859-4", "iso-8859-5", "iso-8859-6",
    "iso-8859-7", "iso-8859-8", "iso-8859-8-i", "iso-8859-10", "iso-8859-13", "iso-8859-14",
    "iso-8859-15", "iso-8859-16", "koi8-r", "koi8-u", "macintosh", "windows-874",
    "windows-1250", "windows-1251", "windows-1252", "windows-1253", "windows-1254",
    "windows-1255", "windows-1256", "windows-1257", "windows-1258", "x-mac-cyrillic",
    "gbk", "gb18030", "big5", "euc-jp", "iso-2022-jp", "shift_jis", "euc-kr",
    "x-user-defined",
];

pub fn encoding(label: &str) -> &'static Encoding {
    Encoding::for_label(label.as_bytes()).unwrap_or_else(|| panic!("unknown encoding label {label}"))
}

pub fn is_single_byte(enc: &'static Encoding) -> bool {
    enc.is_single_byte()
}

/// Byte sequences (1 or 2 bytes) that decode cleanly in `enc` but are not what `enc` encodes
/// the decoded text to: non-canonical forms. Found by search, nothing is hard-coded.
pub fn noncanonical_sequences(enc: &'static Encoding, limit: usize) -> Vec<Vec<u8>> {
    let mut out = vec![];
    if enc == UTF_8 || enc == UTF_16LE || enc == UTF_16BE || enc.output_encoding() != enc {
        return out;
    }
    let mut consider = |seq: &[u8], out: &mut Vec<Vec<u8>>| {
        if let Ok(text) = ref_decode(enc, seq) {
            if !text.is_empty() && !text.contains('\n') && !text.contains('\r') {
                if let Ok(back) = ref_encode(enc, &text) {
                    if back != seq {
                        out.push(seq.to_vec());
                    }
                }
            }
        }
    };
    for a in 0x80u16..=0xFF {
        consider(&[a as u8], &mut out);
    }
    if !enc.is_single_byte() {
        'outer: for a in 0x80u16..=0xFF {
            for b in 0x30u16..=0xFF {
                consider(&[a as u8, b as u8], &mut out);
                if out.len() >= limit {
                    break 'outer;
                }
            }
        }
    }
    if out.is_empty() && !enc.is_single_byte() {
        // stateful encodings (ISO-2022-JP): an escape sequence followed by a letter, e.g. a
        // redundant or Roman-set designation that the encoder would never emit
        for x in 0x20u8..=0x2F {
            for y in 0x40u8..=0x4F {
                consider(&[0x1B, x, y, b'a'], &mut out);
                consider(&[0x1B, x, y, b'a', 0x1B, 0x28, 0x42], &mut out);
                consider(&[b'a', 0x1B, x, y], &mut out);
            }
        }
    }
    out.truncate(limit);
    out
}
