//! Workload material: Pascal source texts built from the repository's own data-test corpus,
//! re-spaced, decorated with non-ASCII material, and encoded; configurations; fault plans.

use crate::codec;
use crate::rng::Rng;
use crate::scenario::*;
use encoding_rs::Encoding;

pub struct Corpus {
    pub snippets: Vec<String>,
}

fn dedent(s: &str) -> String {
    let min = s
        .lines()
        .filter(|l| !l.trim().is_empty())
        .map(|l| l.len() - l.trim_start().len())
        .min()
        .unwrap_or(0);
    let mut out = String::new();
    for l in s.lines() {
        if l.len() >= min {
            out.push_str(&l[min..]);
        } else {
            out.push_str(l.trim_start());
        }
        out.push('\n');
    }
    out
}

fn walk(dir: &std::path::Path, out: &mut Vec<std::path::PathBuf>) {
    let Ok(rd) = std::fs::read_dir(dir) else { return };
    let mut entries: Vec<_> = rd.filter_map(|e| e.ok()).map(|e| e.path()).collect();
    entries.sort();
    for p in entries {
        if p.is_dir() {
            walk(&p, out);
        } else {
            out.push(p);
        }
    }
}

impl Corpus {
    pub fn load(repo: &str) -> Corpus {
        let mut snippets = vec![];
        let mut files = vec![];
        walk(
            std::path::Path::new(&format!("{repo}/core/datatests/generated/optimising_line_formatter")),
            &mut files,
        );
        for f in &files {
            if let Ok(s) = std::fs::read_to_string(f) {
                // input, separator line, expected output: both halves are usable sources
                let mut parts: Vec<String> = vec![String::new()];
                for l in s.lines() {
                    let t = l.trim();
                    if t.len() > 8 && t.starts_with("!#") && t.ends_with("#!") {
                        parts.push(String::new());
                    } else {
                        let p = parts.last_mut().unwrap();
                        p.push_str(l);
                        p.push('\n');
                    }
                }
                for part in parts {
                    let d = dedent(&part);
                    if !d.trim().is_empty() {
                        snippets.push(d.trim_matches('\n').to_string() + "\n");
                    }
                }
            }
        }
        let mut files = vec![];
        walk(
            std::path::Path::new(&format!("{repo}/core/datatests/generated/logical_line_test")),
            &mut files,
        );
        for f in &files {
            if let Ok(s) = std::fs::read_to_string(f) {
                let mut t = String::new();
                for l in dedent(&s).lines() {
                    if l.trim() == "---" {
                        break;
                    }
                    if let Some(i) = l.find('|') {
                        t.push_str(&l[i + 1..]);
                        t.push('\n');
                    }
                }
                if !t.trim().is_empty() {
                    snippets.push(t);
                }
            }
        }
        if snippets.is_empty() {
            // harness error, not a verdict: the corpus is part of the tree under test
            eprintln!("HARNESS-ERROR: no corpus snippets found under {repo}/core/datatests/generated");
            std::process::exit(2);
        }
        Corpus { snippets }
    }
}

#[derive(Clone, Copy, Debug, PartialEq, Eq)]
pub enum SizeClass {
    Empty,
    Tiny,
    Small,
    Medium,
    Large,
}

impl SizeClass {
    pub fn name(self) -> &'static str {
        match self {
            SizeClass::Empty => "empty",
            SizeClass::Tiny => "tiny",
            SizeClass::Small => "small",
            SizeClass::Medium => "medium",
            SizeClass::Large => "large",
        }
    }
    pub fn of_len(n: usize) -> SizeClass {
        match n {
            0 => SizeClass::Empty,
            1..=64 => SizeClass::Tiny,
            65..=1024 => SizeClass::Small,
            1025..=8192 => SizeClass::Medium,
            _ => SizeClass::Large,
        }
    }
}

/// Characters whose encoded form starts like a BOM: U+FEFF itself (UTF-8: EF BB BF; UTF-16: the
/// BOM), U+FFFE (the other UTF-16 BOM, byte-swapped), U+BBEF U+00BF (UTF-16LE: EF BB BF 00),
/// U+EFBB U+BF41 (UTF-16BE: EF BB BF 41), and the Latin-1 spellings of the three BOMs.
pub const BOM_LOOKALIKE_TEXT: &[&str] = &[
    "\u{FEFF}",
    "\u{FEFF}\u{FEFF}",
    "\u{FFFE}",
    "\u{BBEF}\u{BF}",
    "\u{EFBB}\u{BF41}",
    "\u{EF}\u{BB}\u{BF}",
    "\u{FF}\u{FE}",
    "\u{FE}\u{FF}",
];

/// Inserts the raw bytes of one of the three BOMs right after the file's own BOM (or at the
/// very start). Whether the result is well-formed is for the reference codec to say.
pub fn inject_bom_bytes(rng: &mut Rng, bom_len: usize, bytes: &[u8]) -> Vec<u8> {
    let ins: &[u8] = match rng.below(3) {
        0 => &[0xEF, 0xBB, 0xBF],
        1 => &[0xFF, 0xFE],
        _ => &[0xFE, 0xFF],
    };
    let mut out = bytes[..bom_len].to_vec();
    out.extend_from_slice(ins);
    out.extend_from_slice(&bytes[bom_len..]);
    out
}

pub const POOLS: &[&str] = &[
    "éàüñÿÆß§±",
    "€œŠ…™",
    "Привет",
    "αβγδΩ",
    "日本語テスト",
    "中文测试",
    "한국어",
    "😀𝔘𐍈",
    "\u{3000}",
    "\u{FEFF}",
    "\u{A0}\u{2028}\u{85}",
    "\u{FFFD}",
    "¥‾",
    "\u{FFFE}\u{FFFF}",
    "\u{0}",
    "\u{80}\u{9F}",
    "\u{D7FF}\u{E000}\u{10FFFF}",
];

fn non_ascii_pool(enc: &'static Encoding, rng: &mut Rng) -> Vec<char> {
    let mut pool: Vec<char> = vec![];
    if enc.is_single_byte() {
        // what the code page itself can say
        for b in 0x80u8..=0xFF {
            if let Ok(s) = codec::ref_decode(enc, &[b]) {
                pool.extend(s.chars());
            }
        }
    }
    for p in POOLS {
        pool.extend(p.chars().filter(|c| codec::representable(enc, *c)));
    }
    rng.shuffle(&mut pool);
    pool
}

fn respace(rng: &mut Rng, text: &str, mode: u64) -> String {
    match mode {
        // as is
        0 => text.to_string(),
        // inflate: the formatted result is shorter
        1 => {
            let mut out = String::with_capacity(text.len() * 2);
            for c in text.chars() {
                out.push(c);
                if c == ' ' && rng.chance(1, 2) {
                    for _ in 0..rng.range(1, 6) {
                        out.push(' ');
                    }
                }
                if c == '\n' && rng.chance(1, 3) {
                    for _ in 0..rng.range(1, 3) {
                        out.push('\n');
                    }
                }
            }
            out
        }
        // minify: the formatted result is longer
        2 => {
            let mut out = String::with_capacity(text.len());
            let mut in_line_comment = false;
            let mut prev_space = false;
            let mut chars = text.chars().peekable();
            while let Some(c) = chars.next() {
                if c == '/' && chars.peek() == Some(&'/') {
                    in_line_comment = true;
                }
                if c == '\n' {
                    if in_line_comment {
                        out.push('\n');
                        in_line_comment = false;
                        prev_space = true;
                        continue;
                    }
                    if !prev_space {
                        out.push(' ');
                        prev_space = true;
                    }
                    continue;
                }
                if c == ' ' || c == '\t' {
                    if !prev_space {
                        out.push(' ');
                        prev_space = true;
                    }
                    continue;
                }
                prev_space = false;
                out.push(c);
            }
            out
        }
        // CRLF line ends and tabs
        _ => text.replace('\n', "\r\n").replace("  ", "\t"),
    }
}

fn decorate(rng: &mut Rng, text: &str, pool: &[char]) -> String {
    if pool.is_empty() {
        return text.to_string();
    }
    let word = |rng: &mut Rng| -> String {
        let n = rng.range(1, 6) as usize;
        (0..n).map(|_| *rng.pick(pool)).collect()
    };
    let mut out = String::with_capacity(text.len() + 64);
    // "dense" contents carry long runs of non-ASCII text (long comments and literals), so that
    // any fixed-size piece a codec or writer might cut the text into ends inside such a run
    let dense = rng.chance(1, 5);
    for line in text.split_inclusive('\n') {
        if dense && rng.chance(1, 6) {
            let n = rng.range(100, 3000) as usize;
            let run: String = (0..n).map(|_| *rng.pick(pool)).filter(|c| *c != '\n' && *c != '\r' && *c != '\u{2028}' && *c != '\u{85}').collect();
            if rng.chance(1, 2) {
                out.push_str(&format!("// {run}\n"));
            } else {
                out.push_str(&format!("S := '{}';\n", run.replace('\'', "")));
            }
        }
        if rng.chance(1, 40) {
            // regions the formatter leaves alone
            if rng.chance(1, 2) {
                out.push_str("// pasfmt off\nKeep   :=   1 ;\n");
                // (sometimes the region is never switched on again)
                if !rng.chance(1, 3) {
                    out.push_str("// pasfmt on\n");
                }
            } else {
                out.push_str("asm\n  MOV   EAX,  EBX\nend;\n");
            }
        }
        if rng.chance(1, 4) {
            let w = word(rng);
            match rng.below(5) {
                0 => out.push_str(&format!("// {w}\n")),
                1 => out.push_str(&format!("S := '{w}';\n")),
                2 => out.push_str(&format!("{{ {w} }}\n")),
                3 => out.push_str(&format!("Var{w} := {w}1 + 2;\n")),
                _ => out.push_str(&format!("(* {w} *) Foo({w});\n")),
            }
        }
        out.push_str(line);
    }
    out
}

pub struct Content {
    pub text: String,
    pub layout: u64,
}

/// A source text of roughly the requested size class.
pub fn gen_text(rng: &mut Rng, corpus: &Corpus, class: SizeClass, max_bytes: usize) -> Content {
    let target = match class {
        SizeClass::Empty => 0,
        SizeClass::Tiny => rng.range(1, 64) as usize,
        SizeClass::Small => rng.range(65, 1024) as usize,
        SizeClass::Medium => rng.range(1025, 8192) as usize,
        SizeClass::Large => rng.range(8193, max_bytes.max(8194) as u64) as usize,
    }
    .min(max_bytes);
    let mut text = String::new();
    if target > 0 {
        match rng.below(24) {
            0 => text = " \n\t \r\n".repeat(target / 6 + 1),
            1 => text = "a ;".to_string(),
            _ => {
                while text.len() < target {
                    text.push_str(rng.pick(&corpus.snippets[..]).as_str());
                    if rng.chance(1, 2) {
                        text.push('\n');
                    }
                }
            }
        }
        if text.len() > target + target / 4 + 16 {
            let mut cut = target;
            while !text.is_char_boundary(cut) {
                cut += 1;
            }
            text.truncate(cut);
        }
    }
    let layout = rng.below(4);
    let text = respace(rng, &text, layout);
    Content { text, layout }
}

#[derive(Clone, Debug)]
pub struct Options {
    pub pairs: Vec<(String, String)>,
    pub encoding_label: String,
}

impl Options {
    pub fn argv(&self) -> Vec<String> {
        let mut v = vec![];
        for (k, val) in &self.pairs {
            v.push("-C".to_string());
            v.push(format!("{k}={val}"));
        }
        v
    }
    pub fn toml(&self) -> String {
        let mut s = String::new();
        for (k, val) in &self.pairs {
            let quoted = matches!(k.as_str(), "begin_style" | "line_ending" | "encoding");
            if quoted {
                s.push_str(&format!("{k} = \"{val}\"\n"));
            } else {
                s.push_str(&format!("{k} = {val}\n"));
            }
        }
        s
    }
    pub fn encoding(&self) -> &'static Encoding {
        if self.encoding_label == "native" {
            encoding_rs::UTF_8
        } else {
            codec::encoding(&self.encoding_label)
        }
    }
    pub fn key(&self) -> String {
        self.pairs
            .iter()
            .map(|(k, v)| format!("{k}={v}"))
            .collect::<Vec<_>>()
            .join(",")
    }
}

/// Formatting options as `-C` overrides; `encoding_label` None = leave the encoding at its
/// default (native = UTF-8 here).
pub fn gen_options(rng: &mut Rng, encoding_label: Option<&str>) -> Options {
    let mut pairs: Vec<(String, String)> = vec![];
    if rng.chance(1, 2) {
        pairs.push(("wrap_column".into(), rng.range(30, 200).to_string()));
    }
    if rng.chance(1, 4) {
        pairs.push((
            "begin_style".into(),
            rng.pick(&["auto", "always_wrap"]).to_string(),
        ));
    }
    if rng.chance(1, 4) {
        pairs.push((
            "format_multiline_strings".into(),
            rng.pick(&["true", "false"]).to_string(),
        ));
    }
    if rng.chance(1, 4) {
        pairs.push(("use_tabs".into(), rng.pick(&["true", "false"]).to_string()));
    }
    if rng.chance(1, 4) {
        pairs.push(("tab_width".into(), rng.range(1, 8).to_string()));
    }
    if rng.chance(1, 4) {
        pairs.push(("continuation_indents".into(), rng.range(0, 4).to_string()));
    }
    if rng.chance(1, 3) {
        pairs.push((
            "line_ending".into(),
            rng.pick(&["lf", "crlf", "native"]).to_string(),
        ));
    }
    let label = match encoding_label {
        Some(l) => {
            pairs.push(("encoding".into(), l.to_string()));
            l.to_string()
        }
        None => "native".to_string(),
    };
    Options {
        pairs,
        encoding_label: label,
    }
}

thread_local! {
    static NONCANONICAL: std::cell::RefCell<std::collections::HashMap<&'static str, std::rc::Rc<Vec<Vec<u8>>>>> =
        std::cell::RefCell::new(std::collections::HashMap::new());
}

pub fn noncanonical_forms(enc: &'static Encoding) -> std::rc::Rc<Vec<Vec<u8>>> {
    NONCANONICAL.with(|m| {
        m.borrow_mut()
            .entry(enc.name())
            .or_insert_with(|| std::rc::Rc::new(codec::noncanonical_sequences(enc, 400)))
            .clone()
    })
}

pub struct Encoded {
    pub bytes: Vec<u8>,
    /// the governing encoding (BOM's if any)
    pub enc: &'static Encoding,
    pub has_bom: bool,
}

/// Encodes `text` for a file whose configured encoding is `configured`; optionally prefixes a
/// BOM, possibly one that *disagrees* with the configured encoding (the BOM then governs).
pub fn encode_for(
    rng: &mut Rng,
    configured: &'static Encoding,
    text: &str,
    bom: BomChoice,
    decorate_text: bool,
) -> Encoded {
    let (enc, has_bom) = match bom {
        BomChoice::None => (configured, false),
        BomChoice::Matching => {
            if codec::bom_for(configured).is_some() {
                (configured, true)
            } else {
                (configured, false)
            }
        }
        BomChoice::Utf8 => (encoding_rs::UTF_8, true),
        BomChoice::Utf16Le => (encoding_rs::UTF_16LE, true),
        BomChoice::Utf16Be => (encoding_rs::UTF_16BE, true),
    };
    let mut text = if decorate_text {
        let pool = non_ascii_pool(enc, rng);
        decorate(rng, text, &pool)
    } else {
        text.to_string()
    };
    // texts whose own first bytes look like a byte-order mark (of this or another encoding)
    if rng.chance(1, 10) {
        let prefix = *rng.pick(BOM_LOOKALIKE_TEXT);
        if prefix.chars().all(|c| codec::representable(enc, c)) {
            text = format!("{prefix}{text}");
        }
    }
    let text = codec::make_representable(enc, &text);
    let body = match codec::ref_encode(enc, &text) {
        Ok(b) => b,
        Err(_) => {
            // cannot happen after make_representable; fall back to ASCII-only
            let ascii: String = text.chars().filter(|c| c.is_ascii()).collect();
            codec::ref_encode(enc, &ascii).unwrap_or_default()
        }
    };
    let mut body = body;
    // legacy multi-byte encodings: now and then a comment spelled in a non-canonical byte form
    // (decodes cleanly, but the encoder would spell it differently)
    if rng.chance(1, 6) {
        let forms = noncanonical_forms(enc);
        if !forms.is_empty() {
            for _ in 0..rng.range(1, 3) {
                body.extend_from_slice(b"// ");
                let form: &Vec<u8> = rng.pick(&forms[..]);
                body.extend_from_slice(form);
                body.push(b'\n');
            }
        }
    }
    let mut bytes = vec![];
    if has_bom {
        bytes.extend_from_slice(codec::bom_for(enc).unwrap());
    }
    bytes.extend_from_slice(&body);
    Encoded {
        bytes,
        enc,
        has_bom,
    }
}

#[derive(Clone, Copy, Debug, PartialEq, Eq)]
pub enum BomChoice {
    None,
    Matching,
    Utf8,
    Utf16Le,
    Utf16Be,
}

pub fn gen_bom_choice(rng: &mut Rng) -> BomChoice {
    match rng.below(10) {
        0..=4 => BomChoice::None,
        5 | 6 => BomChoice::Matching,
        7 => BomChoice::Utf8,
        8 => BomChoice::Utf16Le,
        _ => BomChoice::Utf16Be,
    }
}

/// Makes `bytes` malformed in `enc` (used for "undecodable" files). Returns None when no
/// malformed form exists for this encoding (most single-byte code pages accept every byte).
pub fn corrupt(rng: &mut Rng, enc: &'static Encoding, bom_len: usize, bytes: &[u8]) -> Option<Vec<u8>> {
    let body_len = bytes.len() - bom_len;
    let at = bom_len + if body_len == 0 { 0 } else { rng.usize_below(body_len + 1) };
    let candidates: Vec<Vec<u8>> = if enc == encoding_rs::UTF_8 {
        vec![vec![0x80], vec![0xC0, 0xAF], vec![0xED, 0xA0, 0x80], vec![0xF5, 0x80, 0x80, 0x80], vec![0xE2, 0x82], vec![0xFF]]
    } else if enc == encoding_rs::UTF_16LE {
        vec![vec![0x00, 0xD8, 0x41, 0x00], vec![0x00, 0xDC], vec![0x41]]
    } else if enc == encoding_rs::UTF_16BE {
        vec![vec![0xD8, 0x00, 0x00, 0x41], vec![0xDC, 0x00], vec![0x41]]
    } else {
        vec![vec![0x80], vec![0xFF], vec![0x81], vec![0x1B, 0x24], vec![0xA0], vec![0xFD], vec![0x8F]]
    };
    let mut order: Vec<usize> = (0..candidates.len()).collect();
    rng.shuffle(&mut order);
    for i in order {
        let ins = &candidates[i];
        // UTF-16 insertions must stay unit-aligned unless the insertion is the odd byte itself
        let at = if (enc == encoding_rs::UTF_16LE || enc == encoding_rs::UTF_16BE) && ins.len() % 2 == 0 {
            bom_len + ((at - bom_len) & !1)
        } else if (enc == encoding_rs::UTF_16LE || enc == encoding_rs::UTF_16BE) && ins.len() == 1 {
            bytes.len()
        } else {
            at
        };
        let mut out = bytes[..at].to_vec();
        out.extend_from_slice(ins);
        out.extend_from_slice(&bytes[at..]);
        if codec::sniff_bom(&out).map(|(_, l)| l).unwrap_or(0) != bom_len {
            continue;
        }
        if codec::ref_decode(enc, &out[bom_len..]).is_err() {
            return Some(out);
        }
    }
    None
}

// ---------------------------------------------------------------------------- faults

pub fn gen_chunk_policy(rng: &mut Rng, len: usize, bom_len: usize) -> ChunkPolicy {
    match rng.below(8) {
        0 | 1 => ChunkPolicy::Whole,
        2 => ChunkPolicy::Fixed(if len <= 8192 { 1 } else { 64 }),
        3 => ChunkPolicy::Fixed(rng.range(2, 9) as u32),
        4 => ChunkPolicy::Fixed(4096),
        5 => {
            // boundaries inside the BOM and at a few random offsets (inside multi-byte
            // sequences / between surrogate halves with fair probability for non-ASCII text)
            let mut bs: Vec<u64> = vec![1, 2];
            if bom_len > 0 {
                bs.push(bom_len as u64);
            }
            for _ in 0..rng.range(1, 12) {
                if len > 0 {
                    bs.push(rng.below(len as u64 + 1));
                }
            }
            bs.sort();
            bs.dedup();
            ChunkPolicy::Boundaries(bs)
        }
        _ => ChunkPolicy::Random {
            seed: rng.next_u64(),
            max: *rng.pick(&[2u32, 3, 7, 16, 100, 1000, 5000]),
        },
    }
}

/// Offsets that split every multi-byte sequence of `bytes` (best effort, from the reference
/// decoding of UTF-8 / UTF-16; for other encodings every offset after a byte >= 0x80).
pub fn splitting_boundaries(enc: &'static Encoding, bom_len: usize, bytes: &[u8], cap: usize) -> Vec<u64> {
    let mut bs = vec![];
    for i in 1..bom_len {
        bs.push(i as u64);
    }
    let body = &bytes[bom_len..];
    if enc == encoding_rs::UTF_16LE || enc == encoding_rs::UTF_16BE {
        let mut i = 0;
        while i + 1 < body.len() && bs.len() < cap {
            let u = if enc == encoding_rs::UTF_16LE {
                u16::from_le_bytes([body[i], body[i + 1]])
            } else {
                u16::from_be_bytes([body[i], body[i + 1]])
            };
            if (0xD800..0xDC00).contains(&u) {
                // inside the high unit, between the halves, inside the low unit
                bs.push((bom_len + i + 1) as u64);
                bs.push((bom_len + i + 2) as u64);
                bs.push((bom_len + i + 3) as u64);
            } else if u >= 0x80 {
                bs.push((bom_len + i + 1) as u64);
            }
            i += 2;
        }
    } else {
        for (i, b) in body.iter().enumerate() {
            if bs.len() >= cap {
                break;
            }
            if *b >= 0x80 || *b == 0x1B {
                bs.push((bom_len + i + 1) as u64);
            }
        }
    }
    bs.sort();
    bs.dedup();
    bs
}

pub const READ_FAULTS: &[FaultKind] = &[FaultKind::Eintr, FaultKind::Short(1), FaultKind::Short(3), FaultKind::Eio];
pub const WRITE_FAULTS: &[FaultKind] = &[
    FaultKind::Eintr,
    FaultKind::Short(1),
    FaultKind::Short(5),
    FaultKind::WriteZero,
    FaultKind::Eio,
    FaultKind::Enospc,
    FaultKind::Epipe,
];
pub const OPEN_FAULTS: &[FaultKind] = &[FaultKind::Eacces, FaultKind::Emfile, FaultKind::Eio];
pub const SEEK_FAULTS: &[FaultKind] = &[FaultKind::Eio];
pub const SETLEN_FAULTS: &[FaultKind] = &[FaultKind::Eio, FaultKind::Enospc];

pub fn applicable_faults(op: OpKind) -> &'static [FaultKind] {
    match op {
        OpKind::Open => OPEN_FAULTS,
        OpKind::Read => READ_FAULTS,
        OpKind::Write => WRITE_FAULTS,
        OpKind::Seek => SEEK_FAULTS,
        OpKind::SetLen => SETLEN_FAULTS,
        _ => &[],
    }
}
