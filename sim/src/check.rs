//! Seeded search: for run index i of a property, derive one PRNG stream from (seed, property,
//! i), generate the cases of that run, evaluate them. Run i is a pure function of (seed, i,
//! tree under test) and does not depend on which worker process executes it.

use crate::case::*;
use crate::gen::*;
use crate::rng::{hash_bytes, mix, Rng};
use crate::scenario::*;
use crate::{child, codec};
use serde::{Deserialize, Serialize};

#[derive(Clone, Copy, Debug, PartialEq, Eq, Serialize, Deserialize)]
#[serde(rename_all = "snake_case")]
pub enum Tier {
    Quick,
    Thorough,
}

pub struct Params {
    pub runs: u64,
    pub max_bytes: usize,
    pub max_files: usize,
    pub sweep_one_in: u64,
}

pub fn params(prop: &str, tier: Tier) -> Params {
    let env_runs = std::env::var("VERIF_RUNS").ok().and_then(|s| s.parse().ok());
    let (runs, max_bytes, max_files, sweep_one_in) = match (prop, tier) {
        ("C16", Tier::Quick) => (2400, 32 * 1024, 1, 12),
        ("C16", Tier::Thorough) => (40_000, 128 * 1024, 1, 10),
        ("C17", Tier::Quick) => (6000, 32 * 1024, 1, 0),
        ("C17", Tier::Thorough) => (100_000, 128 * 1024, 1, 0),
        ("C18", Tier::Quick) => (6000, 32 * 1024, 8, 0),
        ("C18", Tier::Thorough) => (40_000, 128 * 1024, 12, 0),
        _ => (100, 1024, 1, 0),
    };
    Params {
        runs: env_runs.unwrap_or(runs),
        max_bytes,
        max_files,
        sweep_one_in,
    }
}

fn prop_tag(prop: &str) -> u64 {
    hash_bytes(prop.as_bytes())
}

fn gen_class(rng: &mut Rng, tier: Tier) -> SizeClass {
    let large = if tier == Tier::Thorough { 5 } else { 4 };
    let x = rng.below(100);
    if x < 2 {
        SizeClass::Empty
    } else if x < 20 {
        SizeClass::Tiny
    } else if x < 65 {
        SizeClass::Small
    } else if x < 100 - large {
        SizeClass::Medium
    } else {
        SizeClass::Large
    }
}

fn pick_label(rng: &mut Rng) -> &'static str {
    match rng.below(10) {
        0 | 1 => "utf-8",
        2 => "utf-16le",
        3 => "utf-16be",
        _ => *rng.pick(codec::ENCODING_LABELS),
    }
}

fn target_names(mode: Mode, path: &str) -> (String, String) {
    if mode.is_stdin() {
        (STDIN.to_string(), STDOUT.to_string())
    } else {
        (path.to_string(), path.to_string())
    }
}

/// A random fault plan for one file of a case: chunk policies, benign faults, at most `fatal`
/// fatal faults.
fn add_random_faults(
    rng: &mut Rng,
    case: &mut Case,
    file_ix: usize,
    enc: &'static encoding_rs::Encoding,
    bom_len: usize,
    allow_fatal: bool,
) {
    let f = case.files[file_ix].clone();
    let (tin, tout) = target_names(case.mode, &f.path);
    if rng.chance(2, 3) {
        let policy = if rng.chance(1, 3) {
            ChunkPolicy::Boundaries(splitting_boundaries(enc, bom_len, &f.bytes, 64))
        } else {
            gen_chunk_policy(rng, f.bytes.len(), bom_len)
        };
        case.chunking.push(Chunking {
            target: tin.clone(),
            op: OpKind::Read,
            policy,
        });
    }
    if rng.chance(1, 2) && matches!(case.mode, Mode::Files | Mode::StdinStdout) {
        case.chunking.push(Chunking {
            target: tout.clone(),
            op: OpKind::Write,
            policy: gen_chunk_policy(rng, f.bytes.len(), bom_len),
        });
    }
    for _ in 0..rng.below(3) {
        let (target, op) = if rng.chance(1, 2) {
            (tin.clone(), OpKind::Read)
        } else {
            (tout.clone(), OpKind::Write)
        };
        let kind = if rng.chance(1, 2) {
            FaultKind::Eintr
        } else {
            FaultKind::Short(rng.range(1, 9) as u32)
        };
        case.faults.push(Fault {
            target,
            op,
            nth: rng.below(4) as u32,
            kind,
            persistent: false,
        });
    }
    if allow_fatal && rng.chance(1, 3) {
        let (target, op, kinds): (String, OpKind, &[FaultKind]) = match rng.below(10) {
            0 if !case.mode.is_stdin() => (tin.clone(), OpKind::Open, OPEN_FAULTS),
            1..=4 => (tin.clone(), OpKind::Read, &[FaultKind::Eio]),
            5..=7 => (
                tout.clone(),
                OpKind::Write,
                &[FaultKind::Eio, FaultKind::Enospc, FaultKind::WriteZero, FaultKind::Epipe],
            ),
            8 if !case.mode.is_stdin() => (tout.clone(), OpKind::SetLen, SETLEN_FAULTS),
            _ if !case.mode.is_stdin() => (tout.clone(), OpKind::Seek, SEEK_FAULTS),
            _ => (tin.clone(), OpKind::Read, &[FaultKind::Eio]),
        };
        case.faults.push(Fault {
            target,
            op,
            nth: if op == OpKind::Read { rng.below(4) as u32 } else { rng.below(2) as u32 },
            kind: rng.pick(kinds).clone(),
            persistent: rng.chance(1, 4),
        });
    }
    dedup_faults(&mut case.faults);
}

fn dedup_faults(faults: &mut Vec<Fault>) {
    let mut seen = std::collections::HashSet::new();
    faults.retain(|f| seen.insert((f.target.clone(), f.op, f.nth)));
}

fn base_case(prop: &str, seed: u64, run: u64, opts: &Options, mode: Mode, files: Vec<SimFile>) -> Case {
    Case {
        property: prop.to_string(),
        seed,
        run,
        options: opts.pairs.clone(),
        mode,
        files,
        knobs: Knobs::default(),
        workers: 1,
        chunks: vec![],
        policy: Policy::default(),
        schedule: None,
        faults: vec![],
        chunking: vec![],
        extra_args: vec![],
        path_form: PathForm::Explicit,
        path_args: vec![],
        list_poison: None,
        hardlinks: vec![],
        explicit_real: false,
        links_copy_up: false,
        symlinks: vec![],
        bogus_paths: vec![],
        bogus_first: false,
        list_via_pipe: false,
    }
}

/// A path argument that cannot be expanded or opened.
fn gen_bogus_path(rng: &mut Rng) -> String {
    match rng.below(3) {
        0 => "nosuch/[*.pas".to_string(),
        1 => "nosuchdir/".to_string(),
        _ => "nosuch/***/x.pas".to_string(),
    }
}

fn gen_log_level_args(rng: &mut Rng) -> Vec<String> {
    // levels up to WARN only: INFO and below would put wall-clock durations into the records
    match rng.below(3) {
        0 => vec!["--log-level".into(), "OFF".into()],
        1 => vec!["--log-level=ERROR".into()],
        _ => vec!["-l".into(), "WARN".into()],
    }
}

fn gen_path_form(rng: &mut Rng, explicit_weight: u64) -> PathForm {
    match rng.below(explicit_weight + 3) {
        0 => PathForm::Directory,
        1 => PathForm::Glob,
        2 => PathForm::FilesFrom,
        _ => PathForm::Explicit,
    }
}

/// Path arguments that select exactly `paths` (relative, `dir/.../name.ext`) through `form`.
/// A directory path spelled so that a glob matcher takes it literally (`[` → `[[]`, ...).
fn glob_escape(dir: &str) -> String {
    let mut out = String::new();
    for c in dir.chars() {
        match c {
            '[' | ']' | '*' | '?' => {
                out.push('[');
                out.push(c);
                out.push(']');
            }
            c => out.push(c),
        }
    }
    out
}

fn path_args_for(rng: &mut Rng, form: PathForm, paths: &[String]) -> Vec<String> {
    let mut dirs: Vec<String> = vec![];
    for p in paths {
        let d = p.rsplit_once('/').map(|x| x.0.to_string()).unwrap_or_default();
        if !dirs.contains(&d) {
            dirs.push(d);
        }
    }
    let top = |d: &String| d.split('/').next().unwrap_or("").to_string();
    match form {
        PathForm::Explicit => vec![],
        PathForm::Directory => {
            let slash = |rng: &mut Rng, d: String| if rng.chance(1, 4) { format!("{d}/") } else { d };
            if rng.chance(1, 2) {
                // the common root, walked recursively
                let mut tops: Vec<String> = dirs.iter().map(top).collect();
                tops.dedup();
                let mut uniq = vec![];
                for t in tops {
                    if !uniq.contains(&t) {
                        uniq.push(t);
                    }
                }
                uniq.into_iter().map(|d| slash(rng, d)).collect()
            } else {
                dirs.into_iter().map(|d| slash(rng, d)).collect()
            }
        }
        PathForm::Glob => {
            if rng.chance(1, 3) {
                let mut uniq = vec![];
                for t in dirs.iter().map(top) {
                    let pat = format!("{}/**/*.pas", glob_escape(&t));
                    if !uniq.contains(&pat) {
                        uniq.push(pat);
                    }
                }
                uniq
            } else {
                dirs.iter().map(|d| format!("{}/*.pas", glob_escape(d))).collect()
            }
        }
        PathForm::FilesFrom => match rng.below(3) {
            0 => paths.to_vec(),
            1 => dirs,
            // (every file of a scenario is a source file, whatever its extension)
            _ => dirs.iter().map(|d| format!("{}/*", glob_escape(d))).collect(),
        },
    }
}

pub struct Generated {
    /// true when a wall-clock measurement (content pre-screen) influenced which cases this
    /// run consists of; such runs are judged like any other but are left out of the
    /// run-twice determinism comparison
    pub timing_sensitive: bool,
    pub cases: Vec<Case>,
    /// one-line description for the evidence samples
    pub describe: String,
}

// ---------------------------------------------------------------------------------- C16

/// One encoded content that passes the pre-screen (its stdin reference run completes and is
/// not slow); None after three discarded attempts. Sets `timing_sensitive` when a wall-clock
/// measurement influenced the outcome.
#[allow(clippy::too_many_arguments)]
fn screened_content(
    prop: &str,
    rng: &mut Rng,
    corpus: &Corpus,
    opts: &Options,
    class: SizeClass,
    max_bytes: usize,
    corrupt_one_in: u64,
    stats: &mut Stats,
    timing_sensitive: &mut bool,
) -> Option<(Vec<u8>, &'static encoding_rs::Encoding, usize, &'static str, RunResult)> {
    for _ in 0..3 {
        let content = gen_text(rng, corpus, class, max_bytes);
        let decorate = rng.chance(1, 2);
        let bom = gen_bom_choice(rng);
        let enc = encode_for(rng, opts.encoding(), &content.text, bom, decorate);
        let bom_len = if enc.has_bom { codec::bom_for(enc.enc).unwrap().len() } else { 0 };
        let mut bytes = enc.bytes.clone();
        let mut kind = "decodable";
        if rng.chance(1, corrupt_one_in) {
            if let Some(c) = corrupt(rng, enc.enc, bom_len, &bytes) {
                bytes = c;
                kind = "malformed";
            }
        } else if rng.chance(1, 25) {
            bytes = inject_bom_bytes(rng, bom_len, &bytes);
            kind = "bom_bytes_injected";
        }
        let probe_case = base_case(prop, 0, 0, opts, Mode::StdinStdout, vec![SimFile::new("simfs:/probe.pas", bytes.clone())]);
        let ra = child::run_reference(&probe_case.stdin_reference(0));
        stats.invocations += 1;
        if ra.exit.is_normal() && ra.wall_ms <= child::prescreen_slow_ms() {
            return Some((bytes, enc.enc, bom_len, kind, ra));
        }
        stats.probe("content_discarded_by_prescreen");
        *timing_sensitive = true;
    }
    None
}

pub fn generate_c16(seed: u64, run: u64, corpus: &Corpus, tier: Tier, stats: &mut Stats) -> Generated {
    let p = params("C16", tier);
    let mut rng = Rng::derive(seed, &[prop_tag("C16"), run]);
    let class = gen_class(&mut rng, tier);
    let label = if rng.chance(7, 10) { None } else { Some(pick_label(&mut rng)) };
    let opts = gen_options(&mut rng, label);
    let form = gen_path_form(&mut rng, 9);
    // (now and then a name with characters that mean something to a glob matcher, named literally)
    let special = if form != PathForm::Glob && rng.chance(1, 10) {
        *rng.pick(&["Unit1[1]", "[old]/unit1", "unit 1 (copy)", "unit{1}"])
    } else {
        "unit1"
    };
    let path = if form == PathForm::Explicit {
        format!("simfs:/src/{special}.pas")
    } else {
        format!("src/sub/{special}.pas")
    };
    // one content; contents the pure formatter chokes on by itself (C04's subject, not this
    // property's) are replaced, at most twice
    let mut attempt = 0;
    let mut timing_sensitive = false;
    let (content, enc, bom_len, bytes, mut kind, reference) = loop {
        let content = gen_text(&mut rng, corpus, class, p.max_bytes);
        let decorate = rng.chance(1, 2);
        let bom = gen_bom_choice(&mut rng);
        let enc = encode_for(&mut rng, opts.encoding(), &content.text, bom, decorate);
        let bom_len = if enc.has_bom { codec::bom_for(enc.enc).unwrap().len() } else { 0 };
        let mut bytes = enc.bytes.clone();
        let mut kind = "decodable";
        if rng.chance(2, 25) {
            if let Some(c) = corrupt(&mut rng, enc.enc, bom_len, &bytes) {
                bytes = c;
                kind = "malformed";
            }
        } else if rng.chance(1, 25) {
            bytes = inject_bom_bytes(&mut rng, bom_len, &bytes);
            kind = "bom_bytes_injected";
        }
        let probe_case = base_case("C16", seed, run, &opts, Mode::StdinStdout, vec![SimFile::new(&path, bytes.clone())]);
        let ra = child::run_reference(&probe_case.stdin_reference(0));
        stats.invocations += 1;
        if ra.exit.is_normal() && ra.wall_ms <= child::prescreen_slow_ms() {
            break (content, enc, bom_len, bytes, kind, ra);
        }
        stats.probe("content_discarded_by_prescreen");
        timing_sensitive = true;
        if std::env::var("VERIF_DEBUG").is_ok() {
            eprintln!("prescreen discard run {run} attempt {attempt}: {:?} bytes={} opts={}", ra.exit, bytes.len(), opts.key());
            let _ = std::fs::write(format!("/tmp/discard_{run}_{attempt}.bin"), &bytes);
        }
        attempt += 1;
        if attempt == 3 {
            return Generated {
                timing_sensitive: true,
                cases: vec![],
                describe: format!("run {run}: three contents in a row discarded by the pre-screen"),
            };
        }
    };
    let content_kind = kind;
    let mut file = SimFile::new(&path, bytes.clone());
    match rng.below(40) {
        0 | 1 => {
            file.exists = false;
            kind = "missing";
        }
        2 => {
            file.readable = false;
            kind = "unreadable";
        }
        3..=5 => {
            file.writable = false;
            kind = "read_only";
        }
        _ => {}
    }
    stats.max_bytes = stats.max_bytes.max(bytes.len() as u64);
    *stats.by_encoding.entry(enc.enc.name().to_string()).or_insert(0) += 1;

    let mut cases = vec![];
    // a file that does not exist cannot be discovered; name it explicitly
    let form = if file.exists { form } else { PathForm::Explicit };
    let path_args = path_args_for(&mut rng, form, &[path.clone()]);
    let list_via_pipe = form == PathForm::FilesFrom && rng.chance(1, 3);
    let as_symlink = form != PathForm::Explicit && file.exists && rng.chance(1, 8);
    *stats.by_mode.entry(format!("path_form:{}", form.name())).or_insert(0) += 1;
    // fault-free: every mode against the stdin reference
    for mode in [Mode::Files, Mode::Check, Mode::Stdout, Mode::StdinCheck] {
        let f = if mode.is_stdin() { SimFile::new(&path, bytes.clone()) } else { file.clone() };
        let mut c = base_case("C16", seed, run, &opts, mode, vec![f]);
        if !mode.is_stdin() {
            c.path_form = form;
            c.path_args = path_args.clone();
            c.list_via_pipe = list_via_pipe;
            if as_symlink {
                c.symlinks = vec![path.clone()];
            }
        }
        cases.push(c);
    }
    // the world files mode leaves behind: files mode again and check mode on the result
    if content_kind == "decodable" && file.exists && reference.exit == Exit::Code(0) && reference.stdout != bytes {
        for mode in [Mode::Files, Mode::Check] {
            // (same permissions as the original: a read-only file that is already formatted is
            // fine for check mode and a failure for files mode)
            let mut f = SimFile::new(&path, reference.stdout.clone());
            f.readable = file.readable;
            f.writable = file.writable;
            cases.push(base_case("C16", seed, run, &opts, mode, vec![f]));
        }
        // ... nearly formatted variants: the result with one small blemish (keyword case, a
        // doubled space, trailing blanks, a missing final newline); ASCII-compatible encodings only
        if enc.enc != encoding_rs::UTF_16LE && enc.enc != encoding_rs::UTF_16BE && !reference.stdout.is_empty() {
            let r = &reference.stdout;
            let mut b = r.clone();
            match rng.below(4) {
                0 => {
                    // upper-case one keyword-ish ASCII word
                    let words: [&[u8]; 6] = [b"begin", b"end", b"unit", b"procedure", b"if", b"then"];
                    let w = *rng.pick(&words);
                    if let Some(at) = b.windows(w.len()).position(|x| x == w) {
                        for c in &mut b[at..at + w.len()] {
                            c.make_ascii_uppercase();
                        }
                    }
                }
                1 => {
                    if let Some(at) = b.iter().position(|c| *c == b' ') {
                        b.insert(at, b' ');
                    }
                }
                2 => {
                    if b.ends_with(b"\n") {
                        b.pop();
                        if b.ends_with(b"\r") {
                            b.pop();
                        }
                    }
                }
                _ => {
                    if let Some(at) = b.iter().position(|c| *c == b'\n') {
                        b.insert(at, b' ');
                    }
                }
            }
            if &b != r {
                for mode in [Mode::Files, Mode::Check] {
                    cases.push(base_case("C16", seed, run, &opts, mode, vec![SimFile::new(&path, b.clone())]));
                }
            }
        }
        // ... and the same formatted text with a trailing comment spelled in a non-canonical
        // byte form of a legacy encoding
        let forms = noncanonical_forms(enc.enc);
        if !forms.is_empty() && reference.stdout.ends_with(b"\n") {
            let mut b = reference.stdout.clone();
            b.extend_from_slice(b"// ");
            let form: &Vec<u8> = rng.pick(&forms[..]);
            b.extend_from_slice(form);
            b.push(b'\n');
            for mode in [Mode::Files, Mode::Check] {
                cases.push(base_case("C16", seed, run, &opts, mode, vec![SimFile::new(&path, b.clone())]));
            }
        }
    }
    // seeded fault plans
    let n_fault = 3;
    for _ in 0..n_fault {
        let mode = match rng.below(10) {
            0..=5 => Mode::Files,
            6 | 7 => Mode::StdinStdout,
            8 => Mode::Check,
            _ => Mode::Stdout,
        };
        let f = if mode.is_stdin() { SimFile::new(&path, bytes.clone()) } else { file.clone() };
        let mut c = base_case("C16", seed, run, &opts, mode, vec![f]);
        if !mode.is_stdin() {
            c.path_form = form;
            c.path_args = path_args.clone();
        }
        add_random_faults(&mut rng, &mut c, 0, enc.enc, bom_len, true);
        if rng.chance(1, 12) {
            c.extra_args = gen_log_level_args(&mut rng);
        }
        if mode == Mode::StdinStdout && rng.chance(1, 20) {
            c.knobs.stdout_tty = true;
        }
        if mode.is_stdin() && rng.chance(1, 8) {
            c.knobs.stdin_tty = true;
        }
        if rng.chance(1, 5) {
            c.knobs.avx2 = false;
        }
        cases.push(c);
    }
    // a small batch through one invocation (several files, a failing subset, any path form,
    // one or two workers): every file against its own stdin reference
    if run % 3 == 0 && file.exists {
        let form = gen_path_form(&mut rng, 3);
        let n_extra = rng.range(1, 4) as usize;
        let prefix = if form == PathForm::Explicit { "simfs:/src/" } else { "src/" };
        let mut files = vec![];
        let mut f0 = file.clone();
        f0.path = format!("{prefix}a/unit0.pas");
        files.push(f0);
        let mut encs = vec![(enc.enc, bom_len)];
        for k in 0..n_extra {
            let class = match rng.below(4) {
                0 => SizeClass::Tiny,
                1 | 2 => SizeClass::Small,
                _ => SizeClass::Medium,
            };
            if let Some((b, e, bl, _k, _ra)) = screened_content("C16", &mut rng, corpus, &opts, class, p.max_bytes, 8, stats, &mut timing_sensitive) {
                // now and then a same-stem sibling of the first file (unit0.pas / unit0.dpr)
                let name = if k == 0 && form != PathForm::Glob && rng.chance(1, 3) {
                    format!("{prefix}a/unit0.dpr")
                } else {
                    format!("{prefix}{}/unit{}.pas", if rng.chance(1, 2) { "a" } else { "b" }, k + 1)
                };
                let mut f = SimFile::new(&name, b);
                match rng.below(16) {
                    0 => f.readable = false,
                    1 => f.writable = false,
                    _ => {}
                }
                files.push(f);
                encs.push((e, bl));
            }
        }
        if files.len() > 1 {
            let mode = match rng.below(6) {
                0 => Mode::Check,
                1 => Mode::Stdout,
                _ => Mode::Files,
            };
            let mut c = base_case("C16", seed, run, &opts, mode, files);
            c.path_form = form;
            let all_paths: Vec<String> = c.files.iter().map(|f| f.path.clone()).collect();
            c.path_args = path_args_for(&mut rng, form, &all_paths);
            c.workers = rng.range(1, 2) as usize;
            c.chunks = gen_partition(&mut rng, c.files.len());
            c.policy = Policy {
                kind: if rng.chance(1, 2) { PolicyKind::Sequential } else { PolicyKind::Random },
                seed: rng.next_u64(),
                depth: 0,
                io_only: rng.chance(1, 2),
                horizon: 0,
            };
            for ix in 0..c.files.len() {
                if rng.chance(1, 3) {
                    let (e, bl) = encs[ix];
                    let fatal = rng.chance(1, 3);
                    add_random_faults(&mut rng, &mut c, ix, e, bl, fatal);
                }
            }
            if form == PathForm::FilesFrom && !c.path_args.is_empty() && rng.chance(1, 4) {
                c.list_poison = Some(rng.usize_below(c.path_args.len()));
            }
            if form == PathForm::FilesFrom && rng.chance(1, 3) {
                c.list_via_pipe = true;
            }
            if rng.chance(1, 10) {
                c.extra_args = gen_log_level_args(&mut rng);
            }
            if rng.chance(1, 10) {
                c.bogus_paths.push(gen_bogus_path(&mut rng));
                c.bogus_first = rng.chance(1, 2);
            }
            *stats.by_mode.entry(format!("batch_path_form:{}", form.name())).or_insert(0) += 1;
            cases.push(c);
        }
    }
    // exhaustive single-fault sweep over the fault-free history of the files-mode run and of
    // the stdin run
    let sweep_eligible = p.sweep_one_in > 0 && run % p.sweep_one_in == 0 && bytes.len() <= 8192 && file.exists;
    // a sweep multiplies the cost of one formatting run by a few hundred: only for contents
    // that format quickly
    if sweep_eligible && reference.wall_ms > 20 {
        timing_sensitive = true;
    }
    if sweep_eligible && reference.wall_ms <= 60 {
        for mode in [Mode::Files, Mode::StdinStdout] {
            let f = if mode.is_stdin() { SimFile::new(&path, bytes.clone()) } else { file.clone() };
            let base = base_case("C16", seed, run, &opts, mode, vec![f]);
            let mut sc = base.to_scenario();
            sc.want_history = true;
            let r = child::run_scenario(&sc);
            stats.invocations += 1;
            if let Some(h) = &r.history {
                let mut seen = std::collections::HashMap::new();
                for rec in h {
                    let nth = {
                        let c = seen.entry((rec.target.clone(), rec.op)).or_insert(0u32);
                        let n = *c;
                        *c += 1;
                        n
                    };
                    for k in applicable_faults(rec.op) {
                        let mut c = base.clone();
                        c.faults.push(Fault {
                            target: rec.target.clone(),
                            op: rec.op,
                            nth,
                            kind: k.clone(),
persistent: false,
});
                        cases.push(c);
                        stats.sweep_runs += 1;
                    }
                }
            }
        }
    }
    let describe = format!(
        "run {run}: {} bytes ({}), layout {}, encoding {}{}, kind {kind}, options [{}], {} cases",
        bytes.len(),
        class.name(),
        content.layout,
        enc.enc.name(),
        if enc.has_bom { "+BOM" } else { "" },
        opts.key(),
        cases.len()
    );
    Generated {
        timing_sensitive,
        cases,
        describe,
    }
}

// ---------------------------------------------------------------------------------- C17

/// Inserts, after a line feed (never a trail byte in these encodings, so a character
/// boundary), a comment line holding a sequence that `enc_name`'s decoder accepts but its
/// encoder cannot produce. Positions late in the text are preferred: output written in pieces
/// has then already begun when the character is met.
fn inject_decode_only(rng: &mut Rng, enc_name: &str, bytes: &[u8]) -> Option<Vec<u8>> {
    let seq: &[&[u8]] = match enc_name {
        "Big5" => &[&[0x87, 0x40], &[0x87, 0x41], &[0x88, 0x62]],
        "EUC-JP" => &[&[0x8F, 0xB0, 0xA1], &[0x8F, 0xB0, 0xA2]],
        _ => return None,
    };
    let mut at: Vec<usize> = bytes.iter().enumerate().filter(|(_, b)| **b == b'\n').map(|(i, _)| i + 1).collect();
    at.push(0);
    at.sort_unstable();
    let pos = if rng.chance(1, 2) {
        let from = at.len() - (at.len() / 4).max(1);
        at[from + rng.below((at.len() - from) as u64) as usize]
    } else {
        at[rng.below(at.len() as u64) as usize]
    };
    let mut out = bytes[..pos].to_vec();
    out.extend_from_slice(b"//   ");
    out.extend_from_slice(seq[rng.below(seq.len() as u64) as usize]);
    out.extend_from_slice(b"\n");
    out.extend_from_slice(&bytes[pos..]);
    Some(out)
}

pub fn generate_c17(seed: u64, run: u64, corpus: &Corpus, tier: Tier, stats: &mut Stats) -> Generated {
    let p = params("C17", tier);
    let mut rng = Rng::derive(seed, &[prop_tag("C17"), run]);
    let class = match gen_class(&mut rng, tier) {
        SizeClass::Large if rng.chance(1, 2) => SizeClass::Medium,
        // more medium-sized texts than elsewhere: codec boundary effects need some length
        SizeClass::Tiny if rng.chance(1, 2) => SizeClass::Medium,
        c => c,
    };
    let label = if rng.chance(1, 10) { None } else { Some(pick_label(&mut rng)) };
    let opts = gen_options(&mut rng, label);
    let path = "simfs:/src/unit1.pas".to_string();
    let mut attempt = 0;
    let mut timing_sensitive = false;
    let (enc, bom_len, bytes, kind, reference) = loop {
        let content = gen_text(&mut rng, corpus, class, p.max_bytes);
        let bom = gen_bom_choice(&mut rng);
        let enc = encode_for(&mut rng, opts.encoding(), &content.text, bom, true);
        let bom_len = if enc.has_bom { codec::bom_for(enc.enc).unwrap().len() } else { 0 };
        let mut bytes = enc.bytes.clone();
        let mut kind = "decodable";
        if rng.chance(1, 10) {
            if let Some(c) = corrupt(&mut rng, enc.enc, bom_len, &bytes) {
                bytes = c;
                kind = "malformed";
            }
        } else if rng.chance(1, 12) {
            bytes = inject_bom_bytes(&mut rng, bom_len, &bytes);
            kind = "bom_bytes_injected";
        } else if !enc.has_bom && rng.chance(1, 2) {
            // byte sequences the decoder accepts and the encoder cannot produce (Big5: the
            // HKSCS extension; EUC-JP: JIS X 0212): the formatted result is not representable,
            // which must be an error that leaves the file as it was - however deep in the
            // text the character sits
            if let Some(b) = inject_decode_only(&mut rng, enc.enc.name(), &bytes) {
                bytes = b;
                kind = "decode_only_sequence";
                stats.probe("c17_decode_only_sequence_generated");
            }
        }
        let probe_case = base_case("C17", seed, run, &opts, Mode::StdinStdout, vec![SimFile::new(&path, bytes.clone())]);
        let ra = child::run_reference(&probe_case.stdin_reference(0));
        stats.invocations += 1;
        if ra.exit.is_normal() && ra.wall_ms <= child::prescreen_slow_ms() {
            break (enc, bom_len, bytes, kind, ra);
        }
        stats.probe("content_discarded_by_prescreen");
        timing_sensitive = true;
        if std::env::var("VERIF_DEBUG").is_ok() {
            eprintln!("prescreen discard run {run} attempt {attempt}: {:?} bytes={} opts={}", ra.exit, bytes.len(), opts.key());
            let _ = std::fs::write(format!("/tmp/discard_{run}_{attempt}.bin"), &bytes);
        }
        attempt += 1;
        if attempt == 3 {
            return Generated {
                timing_sensitive: true,
                cases: vec![],
                describe: format!("run {run}: three contents in a row discarded by the pre-screen"),
            };
        }
    };
    stats.max_bytes = stats.max_bytes.max(bytes.len() as u64);
    *stats
        .by_encoding
        .entry(format!("{}{}", enc.enc.name(), if enc.has_bom { "+bom" } else { "" }))
        .or_insert(0) += 1;
    let mut cases = vec![];
    for mode in [Mode::Files, Mode::StdinStdout] {
        cases.push(base_case("C17", seed, run, &opts, mode, vec![SimFile::new(&path, bytes.clone())]));
        // the same under decoder-/encoder-aimed benign faults
        let mut c = base_case("C17", seed, run, &opts, mode, vec![SimFile::new(&path, bytes.clone())]);
        let (tin, tout) = target_names(mode, &path);
        let read_policy = match rng.below(4) {
            0 => ChunkPolicy::Fixed(1),
            1 => ChunkPolicy::Boundaries(splitting_boundaries(enc.enc, bom_len, &bytes, 256)),
            _ => gen_chunk_policy(&mut rng, bytes.len(), bom_len),
        };
        let read_policy = if bytes.len() > 8192 && read_policy == ChunkPolicy::Fixed(1) {
            ChunkPolicy::Fixed(61)
        } else {
            read_policy
        };
        c.chunking.push(Chunking {
            target: tin.clone(),
            op: OpKind::Read,
            policy: read_policy,
        });
        let write_policy = match rng.below(4) {
            0 if bytes.len() <= 8192 => ChunkPolicy::Fixed(1),
            1 => ChunkPolicy::Boundaries(vec![1, 2, 3, 4, 5]),
            _ => gen_chunk_policy(&mut rng, bytes.len(), bom_len),
        };
        c.chunking.push(Chunking {
            target: tout.clone(),
            op: OpKind::Write,
            policy: write_policy,
        });
        for _ in 0..rng.below(3) {
            c.faults.push(Fault {
                target: if rng.chance(1, 2) { tin.clone() } else { tout.clone() },
                op: if rng.chance(1, 2) { OpKind::Read } else { OpKind::Write },
                nth: rng.below(5) as u32,
                kind: FaultKind::Eintr,
                persistent: false,
            });
        }
        if rng.chance(1, 10) {
            c.faults.push(Fault {
                target: tout.clone(),
                op: OpKind::Write,
                nth: rng.below(3) as u32,
                kind: rng.pick(&[FaultKind::Eio, FaultKind::Enospc, FaultKind::WriteZero]).clone(),
                persistent: rng.chance(1, 3),
            });
        }
        dedup_faults(&mut c.faults);
        if mode == Mode::StdinStdout && rng.chance(1, 25) {
            c.knobs.stdout_tty = true;
        }
        if mode.is_stdin() && rng.chance(1, 6) {
            c.knobs.stdin_tty = true;
        }
        cases.push(c);
    }
    // an already formatted file in the same encoding: the text is unchanged, nothing may be
    // rewritten, and stdout must reproduce the bytes
    if run % 3 == 0 && reference.exit == Exit::Code(0) && reference.stdout != bytes {
        for mode in [Mode::Files, Mode::StdinStdout] {
            cases.push(base_case("C17", seed, run, &opts, mode, vec![SimFile::new(&path, reference.stdout.clone())]));
        }
    }
    let describe = format!(
        "run {run}: {} bytes, configured {}, governing {}{}, kind {kind}, options [{}]",
        bytes.len(),
        opts.encoding_label,
        enc.enc.name(),
        if enc.has_bom { "+BOM" } else { "" },
        opts.key()
    );
    Generated {
        timing_sensitive,
        cases,
        describe,
    }
}

// ---------------------------------------------------------------------------------- C18

fn gen_partition(rng: &mut Rng, n: usize) -> Vec<usize> {
    match rng.below(5) {
        0 => vec![n],
        1 => vec![1; n],
        2 => {
            // rayon-like halving down to a random grain
            fn halve(rng: &mut Rng, n: usize, out: &mut Vec<usize>, depth: u32) {
                if n <= 1 || depth == 0 || rng.chance(1, 4) {
                    if n > 0 {
                        out.push(n);
                    }
                    return;
                }
                let mid = n / 2;
                halve(rng, mid, out, depth - 1);
                halve(rng, n - mid, out, depth - 1);
            }
            let mut out = vec![];
            halve(rng, n, &mut out, 4);
            out
        }
        _ => {
            let mut out = vec![];
            let mut left = n;
            while left > 0 {
                let l = rng.range(1, left as u64) as usize;
                out.push(l);
                left -= l;
            }
            out
        }
    }
}

pub fn gen_policy(rng: &mut Rng) -> Policy {
    let kind = match rng.below(12) {
        0 => PolicyKind::Sequential,
        1 | 2 | 3 => PolicyKind::Random,
        4 | 5 => PolicyKind::Sticky,
        6 | 7 => PolicyKind::Pct,
        8 => PolicyKind::RunToCompletion,
        9 => PolicyKind::RoundRobin,
        _ => PolicyKind::Biased,
    };
    Policy {
        kind,
        seed: rng.next_u64(),
        depth: rng.range(1, 3) as u32,
        io_only: rng.chance(1, 2),
        horizon: 0,
    }
}

pub fn policy_name(k: PolicyKind) -> &'static str {
    match k {
        PolicyKind::Sequential => "sequential",
        PolicyKind::Random => "random",
        PolicyKind::Sticky => "sticky",
        PolicyKind::Pct => "pct",
        PolicyKind::RunToCompletion => "run_to_completion",
        PolicyKind::RoundRobin => "round_robin",
        PolicyKind::Biased => "biased",
    }
}

/// Counts around which fixed-width counters and buffers change behaviour.
const BOUNDARY_COUNTS: &[u64] = &[127, 128, 129, 255, 256, 257, 300, 511, 512, 513];

/// A wide batch: hundreds of paths, most of them failing (missing) and a few tiny good files.
/// What matters here is aggregation over many results, not contents.
fn generate_c18_wide(seed: u64, run: u64, rng: &mut Rng, tier: Tier, stats: &mut Stats) -> Generated {
    let failing = if tier == Tier::Thorough && rng.chance(1, 40) {
        *rng.pick(&[65_535u64, 65_536, 65_537])
    } else if rng.chance(3, 4) {
        *rng.pick(BOUNDARY_COUNTS)
    } else {
        rng.range(100, 600)
    } as usize;
    let good = rng.below(6) as usize;
    let mode = match rng.below(4) {
        0 => Mode::Check,
        1 => Mode::Stdout,
        _ => Mode::Files,
    };
    let opts = gen_options(rng, None);
    let mut case = base_case("C18", seed, run, &opts, mode, vec![]);
    let mut order: Vec<bool> = vec![false; failing];
    order.extend(vec![true; good]);
    rng.shuffle(&mut order);
    // in check mode a failing file can also be an existing, unformatted one (many open files)
    let unformatted_fails = mode == Mode::Check && rng.chance(2, 3);
    for (i, is_good) in order.iter().enumerate() {
        let path = format!("simfs:/w{}/f{i}.pas", i % 7);
        if *is_good {
            case.files.push(SimFile::new(&path, b"a;\n".to_vec()));
        } else if unformatted_fails {
            case.files.push(SimFile::new(&path, b"a ;".to_vec()));
        } else {
            let mut f = SimFile::new(&path, vec![]);
            f.exists = false;
            case.files.push(f);
        }
    }
    if rng.chance(1, 5) {
        case.extra_args = gen_log_level_args(rng);
    }
    // descriptor limits as found in the wild: 1024 (Linux default), 256 (macOS default), lower
    // in containers and under `ulimit -n`
    case.knobs.fd_limit = *rng.pick(&[0u32, 0, 253, 125, 61]);
    let n = case.files.len();
    case.workers = rng.range(1, 8) as usize;
    case.chunks = gen_partition(rng, n);
    case.policy = gen_policy(rng);
    *stats.by_mode.entry(mode.name().to_string()).or_insert(0) += 1;
    *stats.by_policy.entry(policy_name(case.policy.kind).to_string()).or_insert(0) += 1;
    *stats.by_workers.entry(case.workers.to_string()).or_insert(0) += 1;
    stats.probe("c18_wide_batch");
    stats.shapes.insert(format!("wide failing={failing} good={good} K={} mode={}", case.workers, mode.name()));
    let describe = format!(
        "run {run}: wide batch, {failing} failing + {good} good files, K={}, {} groups, policy {}, mode {}",
        case.workers,
        case.chunks.len(),
        policy_name(case.policy.kind),
        mode.name()
    );
    Generated {
        timing_sensitive: false,
        cases: vec![case],
        describe,
    }
}

/// One unit built from a skeleton (decided by `skeleton_seed`) whose identifiers are drawn with
/// lengths decided by `variant`: sibling units agree line for line and token for token in
/// structure but need different wrapping.
fn sibling_unit(name: &str, skeleton_seed: u64, variant: u64, procs: usize) -> String {
    let mut sk = Rng::new(skeleton_seed);
    let mut vr = Rng::new(crate::rng::mix(&[skeleton_seed, variant, 77]));
    let max_len = match variant % 3 {
        0 => 6,
        1 => 28,
        _ => 64,
    };
    let ident = |vr: &mut Rng, stem: &str| -> String {
        let extra = vr.range(0, max_len) as usize;
        let mut s = stem.to_string();
        const FILL: &str = "AndOnAndOnWithMoreWordsThatGoOnForeverAndEverUntilTheLineIsFull";
        s.push_str(&FILL[..extra.min(FILL.len())]);
        s
    };
    let mut out = format!("unit {name};\n\ninterface\n\nimplementation\n\n");
    // at most a few lines whose layout search is expensive (thousands of iterations each)
    let mut heavy_left = 3;
    for p in 0..procs {
        out.push_str(&format!("procedure Proc{p}(AValue: Integer);\nbegin\n"));
        for _ in 0..sk.range(2, 7) {
            let n = sk.range(100, 999);
            let call = format!("{}({}, {n})", ident(&mut vr, "Do"), ident(&mut vr, "AValue"));
            match sk.below(8) {
                0 | 1 => out.push_str(&format!("  if AValue > {n} then\n    {call};\n")),
                2 => out.push_str(&format!("  for I := 0 to {n} do\n    {call};\n")),
                3 => out.push_str(&format!("  while {} < {n} do\n    {call};\n", ident(&mut vr, "Cur"))),
                4 => out.push_str(&format!("  if AValue > {n} then\n    {call}\n  else\n    {call};\n")),
                5 => out.push_str(&format!("  Run(procedure begin {call}; end);\n")),
                6 => out.push_str(&format!("  if AValue > {n} then begin\n    {call};\n    {call};\n  end;\n")),
                7 if heavy_left > 0 && sk.chance(1, 3) => {
                    heavy_left -= 1;
                    // a line whose layout search is expensive: a deep chain of nested calls
                    // ending in a long literal
                    let depth = sk.range(3, 10);
                    let mut line = String::from("  Value := ");
                    for d in 0..depth {
                        line.push_str(&format!("Obj{d}.Get{d}(Arg{d} + "));
                    }
                    line.push('\'');
                    for _ in 0..sk.range(20, 150) {
                        line.push('x');
                    }
                    line.push('\'');
                    for _ in 0..depth {
                        line.push(')');
                    }
                    line.push_str(";\n");
                    out.push_str(&line);
                }
                7 if sk.chance(1, 4) => {
                    // regions the formatter must leave alone (the set of ignored tokens is per file)
                    if sk.chance(1, 2) {
                        out.push_str(&format!("  // pasfmt off\n  {}   :=   {n} ;\n", ident(&mut vr, "Keep")));
                        // (sometimes the region is never switched on again)
                        if !sk.chance(1, 3) {
                            out.push_str("  // pasfmt on\n");
                        }
                    } else {
                        out.push_str("  asm\n    MOV   EAX,  EBX\n  end;\n");
                    }
                }
                _ => out.push_str(&format!("  {} := {} + AValue * {n};\n", ident(&mut vr, "Total"), ident(&mut vr, "Total"))),
            }
        }
        out.push_str("end;\n\n");
    }
    // now and then a routine whose blocks are nested very deeply (recursion depth of the parser
    // and formatter grows with it; pool threads have smaller stacks than the main thread)
    if sk.chance(1, 6) {
        let depth = *sk.pick(&[200u64, 800, 2000, 4000, 7000]) as usize;
        out.push_str("procedure Deep;\n");
        for _ in 0..depth {
            out.push_str("begin\n");
        }
        out.push_str("X := 1;\n");
        for _ in 0..depth {
            out.push_str("end;\n");
        }
    }
    out.push_str("end.\n");
    out
}

/// Sibling units of the same skeleton, from tiny to very large, processed one after the other
/// by the same worker: results keyed on position rather than content must not leak between
/// files, whatever the size of the previous one.
fn generate_c18_siblings(seed: u64, run: u64, rng: &mut Rng, stats: &mut Stats) -> Generated {
    // log-uniform number of routines: 1 .. 2048
    let procs = (1u64 << rng.below(12)) as usize + rng.below(1 << 4) as usize;
    let procs = procs.min(2200);
    let skeleton_seed = rng.next_u64();
    let n = rng.range(2, 3) as usize;
    let mode = if rng.chance(1, 5) { Mode::Check } else { Mode::Files };
    let opts = gen_options(rng, None);
    let mut case = base_case("C18", seed, run, &opts, mode, vec![]);
    let mut variants: Vec<u64> = (0..3).collect();
    rng.shuffle(&mut variants);
    for (i, v) in variants.iter().take(n).enumerate() {
        // a sibling may be a shorter prefix of the skeleton
        let my_procs = if rng.chance(1, 3) { (procs / 2).max(1) } else { procs };
        let text = sibling_unit("Sibling", skeleton_seed, *v, my_procs);
        case.files.push(SimFile::new(&format!("simfs:/sib/unit{i}.pas"), text.into_bytes()));
    }
    if rng.chance(1, 2) {
        case.files.push(SimFile::new("simfs:/sib/small.pas", b"procedure P;\nbegin\n  if A then\n    B(1);\nend;\n".to_vec()));
    }
    let total = case.files.len();
    case.workers = rng.range(1, 3) as usize;
    case.chunks = if rng.chance(2, 3) { vec![total] } else { gen_partition(rng, total) };
    case.policy = gen_policy(rng);
    stats.max_bytes = stats.max_bytes.max(case.files.iter().map(|f| f.bytes.len()).max().unwrap_or(0) as u64);
    *stats.by_mode.entry(mode.name().to_string()).or_insert(0) += 1;
    *stats.by_policy.entry(policy_name(case.policy.kind).to_string()).or_insert(0) += 1;
    *stats.by_workers.entry(case.workers.to_string()).or_insert(0) += 1;
    stats.probe("c18_sibling_units_batch");
    if procs >= 1024 {
        stats.probe("c18_sibling_units_over_1000_routines");
    }
    stats.shapes.insert(format!("siblings procs~2^{} n={n} K={} chunks={:?}", 63 - (procs as u64).leading_zeros(), case.workers, case.chunks));
    let describe = format!(
        "run {run}: {n} sibling units of {procs} routines (same skeleton, different identifier lengths), K={}, chunks {:?}, policy {}, mode {}",
        case.workers,
        case.chunks,
        policy_name(case.policy.kind),
        mode.name()
    );
    Generated {
        timing_sensitive: false,
        cases: vec![case],
        describe,
    }
}

/// Inputs on which pasfmt-core panics at the pinned commit (parser.rs `get_current_token_index()
/// .unwrap()`; C04's domain as far as the panic itself goes).
pub const CORE_PANIC_CANARIES: [&str; 3] = ["if record", "while record", "with\nrecord"];

pub fn generate_c18(seed: u64, run: u64, corpus: &Corpus, tier: Tier, stats: &mut Stats) -> Generated {
    let p = params("C18", tier);
    let mut rng = Rng::derive(seed, &[prop_tag("C18"), run]);
    if rng.chance(1, 25) {
        return generate_c18_wide(seed, run, &mut rng, tier, stats);
    }
    if rng.chance(1, 40) {
        return generate_c18_siblings(seed, run, &mut rng, stats);
    }
    let n = match rng.below(10) {
        0 => 1,
        1..=3 => rng.range(2, 3) as usize,
        4..=7 => rng.range(3, 6) as usize,
        _ => rng.range(4, p.max_files as u64) as usize,
    };
    let workers = match rng.below(10) {
        0 => 1,
        1..=4 => 2,
        5..=7 => rng.range(3, 4) as usize,
        _ => rng.range(2, 8) as usize,
    };
    let mode = match rng.below(8) {
        0 => Mode::Check,
        1 => Mode::Stdout,
        _ => Mode::Files,
    };
    let label = if rng.chance(7, 10) { None } else { Some(pick_label(&mut rng)) };
    let opts = gen_options(&mut rng, label);
    let mut case = base_case("C18", seed, run, &opts, mode, vec![]);
    let form = gen_path_form(&mut rng, 5);
    let mut shape = vec![];
    let mut fail_kinds = vec![];
    let mut timing_sensitive = false;
    // a directory whose own name ends in a source extension (`vendor.pas/`): walking its parent
    // must not mistake it for a file
    let dir_with_ext: Option<u64> = if form == PathForm::Directory && rng.chance(1, 10) {
        stats.probe("c18_directory_named_like_a_source_file");
        Some(rng.below(3))
    } else {
        None
    };
    for i in 0..n {
        let dir = rng.below(3);
        let name = if rng.chance(1, 6) { "same".to_string() } else { format!("u{i}") };
        // (explicit arguments also get placeholders in the scratch tree here: the product may ask
        // the file system which names are the same file)
        let prefix = "root/";
        let dir = if dir_with_ext == Some(dir) { format!("{dir}.pas") } else { dir.to_string() };
        let name = if i > 0 && rng.chance(1, 10) { name.to_uppercase() } else { name };
        // names with characters that mean something to a glob matcher, named literally
        let name = if form != PathForm::Glob && rng.chance(1, 12) {
            format!("{name}{}", *rng.pick(&["[1]", "[old]", " copy", "(2)", "{x}"]))
        } else {
            name
        };
        // (glob patterns here select *.pas only; elsewhere the other source extensions occur too,
        // which also gives same-stem siblings such as same.pas / same.dpr in one directory)
        let ext = match form {
            PathForm::Glob => "pas",
            PathForm::Directory => *rng.pick(&["pas", "pas", "dpr", "dpk", "PAS", "Dpr"]),
            _ => *rng.pick(&["pas", "pas", "pas", "dpr", "dpk"]),
        };
        let mut path = format!("{prefix}d{dir}/{name}.{ext}");
        // (names that differ only in letter case are different files here and welcome)
        while case.files.iter().any(|f| f.path == path) {
            path = format!("{prefix}d{dir}/{name}_{i}.{ext}");
        }
        // near-collisions on purpose
        let dup = if i > 0 && rng.chance(1, 5) { Some(rng.usize_below(i)) } else { None };
        let (bytes, enc, bom_len) = match dup {
            Some(j) if rng.chance(1, 2) => {
                let b = case.files[j].bytes.clone();
                let rf = codec::ref_read(opts.encoding(), &b);
                (b, rf.enc, rf.bom_len)
            }
            _ => {
                let mut attempt = 0;
                loop {
                    let class = if rng.chance(1, 8) { SizeClass::Large } else { gen_class(&mut rng, Tier::Quick) };
                    let max = if class == SizeClass::Large && rng.chance(3, 4) { p.max_bytes.min(48 * 1024) } else { p.max_bytes };
                    let mut content = gen_text(&mut rng, corpus, class, max);
                    if let Some(j) = dup {
                        // same first bytes / same length as a sibling
                        let sib = String::from_utf8_lossy(&case.files[j].bytes).to_string();
                        let keep: String = sib.chars().take(64).collect();
                        content.text = format!("{keep}{}", content.text);
                    }
                    let decorate = rng.chance(1, 3);
                    let bom = gen_bom_choice(&mut rng);
                    let e = encode_for(&mut rng, opts.encoding(), &content.text, bom, decorate);
                    let bl = if e.has_bom { codec::bom_for(e.enc).unwrap().len() } else { 0 };
                    let mut e = e;
                    if rng.chance(1, 30) {
                        e.bytes = inject_bom_bytes(&mut rng, bl, &e.bytes);
                    }
                    // contents the pure formatter chokes on by itself are replaced
                    let probe_case = base_case("C18", seed, run, &opts, Mode::StdinStdout, vec![SimFile::new(&path, e.bytes.clone())]);
                    let ra = child::run_reference(&probe_case.stdin_reference(0));
                    stats.invocations += 1;
                    attempt += 1;
                    if (ra.exit.is_normal() && ra.wall_ms <= child::prescreen_slow_ms()) || attempt == 3 {
                        break (e.bytes, e.enc, bl);
                    }
                    stats.probe("content_discarded_by_prescreen");
                    timing_sensitive = true;
                }
            }
        };
        // a failing file of another kind: one on which the formatter itself panics (planted on
        // purpose, not pre-screened; see DESIGN.md F06)
        let bytes = if n >= 2 && rng.chance(1, 120) {
            stats.probe("c18_core_panic_canary_planted");
            rng.pick(&CORE_PANIC_CANARIES[..]).as_bytes().to_vec()
        } else {
            bytes
        };
        let mut f = SimFile::new(&path, bytes);
        shape.push(SizeClass::of_len(f.bytes.len()).name());
        // the failing subset
        let mut fail = "ok";
        if rng.chance(1, 7) {
            match rng.below(8) {
                0 if form == PathForm::Explicit => {
                    f.exists = false;
                    fail = "missing";
                }
                0 | 1 => {
                    f.readable = false;
                    fail = "unreadable";
                }
                2 => {
                    f.writable = false;
                    fail = "read_only";
                }
                3 | 4 => {
                    if let Some(c) = corrupt(&mut rng, enc, bom_len, &f.bytes) {
                        f.bytes = c;
                        fail = "malformed";
                    }
                }
                5 => {
                    case.faults.push(Fault {
                        target: path.clone(),
                        op: OpKind::Read,
                        nth: rng.below(3) as u32,
                        kind: FaultKind::Eio,
persistent: false,
});
                    fail = "read_eio";
                }
                6 => {
                    case.faults.push(Fault {
                        target: path.clone(),
                        op: OpKind::Open,
                        nth: 0,
                        kind: rng.pick(OPEN_FAULTS).clone(),
persistent: false,
});
                    fail = "open_fault";
                }
                _ => {
                    let (op, kinds): (OpKind, &[FaultKind]) = match rng.below(4) {
                        0 => (OpKind::SetLen, SETLEN_FAULTS),
                        1 => (OpKind::Seek, SEEK_FAULTS),
                        _ => (OpKind::Write, &[FaultKind::Eio, FaultKind::Enospc, FaultKind::WriteZero]),
                    };
                    case.faults.push(Fault {
                        target: path.clone(),
                        op,
                        nth: 0,
                        kind: rng.pick(kinds).clone(),
persistent: false,
});
                    fail = "write_side";
                }
            }
        }
        fail_kinds.push(fail);
        case.files.push(f);
        // benign faults on roughly half of the files
        if rng.chance(1, 2) {
            let ix = case.files.len() - 1;
            add_random_faults(&mut rng, &mut case, ix, enc, bom_len, false);
        }
    }
    dedup_faults(&mut case.faults);
    case.path_form = form;
    case.explicit_real = form == PathForm::Explicit;
    if form == PathForm::FilesFrom && rng.chance(1, 3) {
        case.list_via_pipe = true;
    }
    if form != PathForm::Explicit {
        for f in &case.files {
            if f.exists && rng.chance(1, 10) {
                case.symlinks.push(f.path.clone());
            }
        }
        // a second name (hard link) for one of the files: the property speaks of files, not names
        if rng.chance(1, 8) {
            // (the first name may itself be a symbolic link: then the second one is a hard link of
            // the link's target, and the two do not resolve to the same path)
            let prefer_symlinked = rng.chance(1, 3);
            let pick = case
                .files
                .iter()
                .find(|f| f.exists && f.readable && f.writable && prefer_symlinked && case.symlinks.contains(&f.path))
                .or_else(|| case.files.iter().find(|f| f.exists && f.readable && f.writable))
                .cloned();
            if let Some(t) = pick {
                // now and then make the first name a symbolic link on purpose
                if !case.symlinks.contains(&t.path) && rng.chance(1, 4) {
                    case.symlinks.push(t.path.clone());
                }
                if case.symlinks.contains(&t.path) {
                    stats.probe("c18_hard_link_of_a_symlinked_files_target");
                }
                let dir = t.path.rsplit_once('/').map(|x| x.0.to_string()).unwrap_or_default();
                let alias = format!("{dir}/hardlink_of_{}.pas", case.files.len());
                let mut a = t.clone();
                a.path = alias.clone();
                match rng.below(4) {
                    0 => {
                        // the second name lives on a read-only mount of the same directory
                        a.writable = false;
                        stats.probe("c18_second_name_not_writable");
                    }
                    1 => {
                        // overlay file system: one inode number, but the link breaks on write
                        case.links_copy_up = true;
                        stats.probe("c18_hard_link_that_breaks_on_write");
                    }
                    _ => {}
                }
                case.hardlinks.push((alias, t.path.clone()));
                case.files.push(a);
                stats.probe("c18_file_with_a_second_hard_linked_name");
            }
        }
    }
    let all_paths: Vec<String> = case.files.iter().map(|f| f.path.clone()).collect();
    case.path_args = path_args_for(&mut rng, form, &all_paths);
    // multisets: the same file named more than once
    let mut duplicated = false;
    if form == PathForm::Explicit && rng.chance(1, 8) {
        let mut args = all_paths.clone();
        for _ in 0..rng.range(1, 2) {
            let dup = rng.pick(&all_paths[..]).clone();
            let at = rng.usize_below(args.len() + 1);
            args.insert(at, dup);
        }
        case.path_args = args;
        duplicated = true;
        stats.probe("c18_same_file_named_twice");
    }
    *stats.by_mode.entry(format!("path_form:{}", form.name())).or_insert(0) += 1;
    case.workers = workers;
    case.chunks = gen_partition(&mut rng, if duplicated { case.path_args.len() } else { case.files.len() });
    case.policy = gen_policy(&mut rng);
    if rng.chance(1, 5) {
        case.knobs.avx2 = false;
    }
    if rng.chance(1, 12) {
        case.bogus_paths.push(gen_bogus_path(&mut rng));
        case.bogus_first = rng.chance(1, 2);
    }
    if rng.chance(1, 30) {
        case.extra_args = vec!["--cursor=0,5".into()];
        if n >= 2 && rng.chance(1, 2) {
            // stderr that cannot be written to (2>/dev/full): eprintln! panics, like std's; with
            // two or more files the cursors are dropped, so a correct run never prints there
            case.faults.push(Fault {
                target: "<stderr>".into(),
                op: OpKind::Eprint,
                nth: 0,
                kind: FaultKind::Enospc,
                persistent: true,
            });
        }
    } else if rng.chance(1, 8) {
        case.extra_args = gen_log_level_args(&mut rng);
    }
    *stats.by_mode.entry(mode.name().to_string()).or_insert(0) += 1;
    *stats.by_policy.entry(policy_name(case.policy.kind).to_string()).or_insert(0) += 1;
    *stats.by_workers.entry(workers.to_string()).or_insert(0) += 1;
    stats.max_bytes = stats.max_bytes.max(case.files.iter().map(|f| f.bytes.len()).max().unwrap_or(0) as u64);
    let mut fk = fail_kinds.clone();
    fk.sort();
    stats.shapes.insert(format!(
        "K={workers} chunks={:?} sizes={:?} fail={:?} mode={} enc={}",
        case.chunks,
        shape,
        fk,
        mode.name(),
        opts.encoding_label
    ));
    let describe = format!(
        "run {run}: {n} files {:?} failing {:?}, K={workers}, chunks {:?}, policy {}, mode {}, avx2 {}, options [{}]",
        shape,
        fail_kinds,
        case.chunks,
        policy_name(case.policy.kind),
        mode.name(),
        case.knobs.avx2,
        opts.key()
    );
    Generated {
        timing_sensitive,
        cases: vec![case],
        describe,
    }
}

pub fn generate(prop: &str, tier: Tier, seed: u64, run: u64, corpus: &Corpus, stats: &mut Stats) -> Generated {
    match prop {
        "C16" => generate_c16(seed, run, corpus, tier, stats),
        "C17" => generate_c17(seed, run, corpus, tier, stats),
        "C18" => generate_c18(seed, run, corpus, tier, stats),
        _ => panic!("unknown property {prop}"),
    }
}

/// Digest of everything observable about a run result (determinism self-test).
pub fn result_digest(r: &RunResult) -> u64 {
    let mut parts = vec![
        r.history_hash,
        r.interleave_hash,
        r.steps,
        r.switches,
        hash_bytes(format!("{:?}", r.exit).as_bytes()),
        hash_bytes(&r.stdout),
        hash_bytes(format!("{:?}", r.logs).as_bytes()),
        hash_bytes(format!("{:?}", r.stderr_lines).as_bytes()),
        hash_bytes(format!("{:?}", r.schedule).as_bytes()),
        hash_bytes(format!("{:?}", r.fired).as_bytes()),
        hash_bytes(format!("{:?}", r.invariants).as_bytes()),
        hash_bytes(format!("{:?}", r.mutations).as_bytes()),
    ];
    for f in &r.files {
        parts.push(hash_bytes(f.path.as_bytes()));
        parts.push(f.exists as u64);
        parts.push(f.bytes.as_ref().map(|b| hash_bytes(b)).unwrap_or(1));
    }
    mix(&parts)
}
