//! The simulated world: an in-memory POSIX-subset file system, stdin/stdout/stderr byte streams,
//! fault injection from an explicit plan, an operation history, run-time invariants, and the
//! baton scheduler that decides which pool thread runs at every yield point.

use crate::rng::{hash_bytes, mix, Rng};
use crate::scenario::*;
use pasfmt_orchestrator::verif_seam::{Handle, OpenFlags, World};
use std::cell::Cell;
use std::collections::{BTreeMap, HashMap};
use std::io::{self, SeekFrom};
use std::ops::Range;
use std::path::Path;
use std::sync::{Condvar, Mutex, MutexGuard};

thread_local! {
    /// 0 = the main thread; 1..=K = pool threads.
    static WORKER: Cell<u32> = const { Cell::new(0) };
}

fn me() -> u32 {
    WORKER.with(|w| w.get())
}

#[derive(Clone, Debug)]
struct Node {
    bytes: Vec<u8>,
    readable: bool,
    writable: bool,
}

struct OpenHandle {
    path: String,
    pos: u64,
    flags: OpenFlags,
    owner: u32,
}

pub struct Inner {
    /// second names of files: alias -> the name the content lives under
    aliases: HashMap<String, String>,
    sc: Scenario,
    files: BTreeMap<String, Node>,
    handles: HashMap<Handle, OpenHandle>,
    next_handle: Handle,
    stdin_pos: usize,
    stdout: Vec<u8>,
    stdout_locked_by: Option<u32>,
    stdout_lock_depth: u32,
    stderr_lines: Vec<String>,
    logs: Vec<(String, String)>,
    counters: HashMap<(String, OpKind), u32>,
    plan: HashMap<(String, OpKind, u32), FaultKind>,
    persistent_plan: Vec<(String, OpKind, u32, FaultKind)>,
    read_chunking: HashMap<String, ChunkPolicy>,
    write_chunking: HashMap<String, ChunkPolicy>,
    fired: Vec<Fired>,
    seq: u64,
    steps: u64,
    /// scheduling points passed by workers that were not waiting for something (hook yields
    /// inside the formatter, I/O): a waiter's spin is only charged to the step budget when
    /// nothing of the kind happened since its previous spin
    progress: u64,
    last_wait_seen: HashMap<u32, u64>,
    history: Vec<OpRec>,
    history_hash: u64,
    interleave_hash: u64,
    invariants: Vec<String>,
    probes: BTreeMap<String, u64>,
    mutations: Vec<Mutation>,
    read_failed: Vec<(String, u64)>,
    allowed_paths: Vec<String>,
    items: (u64, u64),
    /// per worker: a read-side failure happened earlier in the group it is folding
    failed_in_group: HashMap<u32, bool>,
    dispatch_workers: Vec<u32>,
    pub pure_out: Option<String>,
}

type Detached = Box<dyn FnOnce() + Send + 'static>;

struct SchedState {
    active: bool,
    current: u32,
    runnable: Vec<bool>,
    spawned: Vec<bool>,
    remaining: Vec<Range<usize>>,
    script: Option<Vec<u32>>,
    cursor: usize,
    taken: Vec<u32>,
    rng: Rng,
    policy: Policy,
    prio: Vec<i64>,
    low_prio: i64,
    change_points: Vec<u64>,
    decisions: u64,
    /// decisions at which the policy was actually consulted (PCT change points count these)
    policy_decisions: u64,
    /// decisions taken at I/O operations and item boundaries (not at compute-level yields)
    io_decisions: u64,
    last_op: Vec<(OpKind, bool)>,
    last_target_stdout: Vec<bool>,
    switches: u64,
    panics: Vec<String>,
    handles: Vec<std::thread::JoinHandle<()>>,
    job: Option<JobPtr>,
    /// `rayon::spawn`ed jobs, by the worker that spawned them: like rayon, a worker gets to them
    /// when it returns to the scheduler, i.e. after the group it is folding
    detached: Vec<(u32, Detached)>,
}

pub struct SimWorld {
    inner: Mutex<Inner>,
    sched: Mutex<SchedState>,
    cv: Condvar,
    argv: Vec<String>,
    report_fd: i32,
}

#[derive(Clone, Copy)]
struct JobPtr(*const (dyn Fn(Range<usize>) + Sync));
// SAFETY: the pointee is Sync, and `par_execute` joins every thread it handed the pointer to
// before it returns, so the pointer never outlives the borrow it was made from.
unsafe impl Send for JobPtr {}

fn norm_path(path: &Path) -> String {
    let s = path.to_string_lossy();
    let mut t: &str = &s;
    while let Some(rest) = t.strip_prefix("./") {
        t = rest;
    }
    t.to_string()
}

fn errno(code: i32) -> io::Error {
    io::Error::from_raw_os_error(code)
}

fn fault_errno(kind: &FaultKind) -> i32 {
    match kind {
        FaultKind::Eintr => libc::EINTR,
        FaultKind::Eio => libc::EIO,
        FaultKind::Enospc => libc::ENOSPC,
        FaultKind::Epipe => libc::EPIPE,
        FaultKind::Eacces => libc::EACCES,
        FaultKind::Emfile => libc::EMFILE,
        FaultKind::Einval => libc::EINVAL,
        FaultKind::Short(_) | FaultKind::WriteZero => 0,
    }
}

fn chunk_limit(policy: Option<&ChunkPolicy>, pos: u64, nth: u32) -> u64 {
    match policy {
        None | Some(ChunkPolicy::Whole) => u64::MAX,
        Some(ChunkPolicy::Fixed(k)) => (*k).max(1) as u64,
        Some(ChunkPolicy::Boundaries(bs)) => bs
            .iter()
            .filter(|b| **b > pos)
            .min()
            .map(|b| b - pos)
            .unwrap_or(u64::MAX),
        Some(ChunkPolicy::Random { seed, max }) => {
            1 + mix(&[*seed, nth as u64]) % ((*max).max(1) as u64)
        }
    }
}

impl SimWorld {
    pub fn new(sc: &Scenario, report_fd: i32) -> SimWorld {
        let aliases: HashMap<String, String> =
            if sc.links_copy_up { HashMap::new() } else { sc.hardlinks.iter().cloned().collect() };
        let mut files = BTreeMap::new();
        for f in &sc.files {
            if f.exists && !aliases.contains_key(&f.path) {
                files.insert(
                    f.path.clone(),
                    Node {
                        bytes: f.bytes.clone(),
                        readable: f.readable,
                        writable: f.writable,
                    },
                );
            }
        }
        let mut plan = HashMap::new();
        let mut persistent_plan = vec![];
        for f in &sc.faults {
            if f.persistent {
                persistent_plan.push((f.target.clone(), f.op, f.nth, f.kind.clone()));
            } else {
                plan.insert((f.target.clone(), f.op, f.nth), f.kind.clone());
            }
        }
        let mut read_chunking = HashMap::new();
        let mut write_chunking = HashMap::new();
        for c in &sc.chunking {
            match c.op {
                OpKind::Read => read_chunking.insert(c.target.clone(), c.policy.clone()),
                _ => write_chunking.insert(c.target.clone(), c.policy.clone()),
            };
        }
        let mut argv = vec!["pasfmt".to_string()];
        argv.extend(sc.argv.iter().cloned());
        let mut allowed_paths: Vec<String> = sc.files.iter().map(|f| f.path.clone()).collect();
        allowed_paths.extend(sc.argv.iter().cloned());
        let workers = sc.workers.max(1);
        let inner = Inner {
            aliases,
            sc: sc.clone(),
            files,
            handles: HashMap::new(),
            next_handle: 3,
            stdin_pos: 0,
            stdout: vec![],
            stdout_locked_by: None,
            stdout_lock_depth: 0,
            stderr_lines: vec![],
            logs: vec![],
            counters: HashMap::new(),
            plan,
            persistent_plan,
            read_chunking,
            write_chunking,
            fired: vec![],
            seq: 0,
            steps: 0,
            progress: 0,
            last_wait_seen: HashMap::new(),
            history: vec![],
            history_hash: 0,
            interleave_hash: 0,
            invariants: vec![],
            probes: BTreeMap::new(),
            mutations: vec![],
            read_failed: vec![],
            allowed_paths,
            items: (0, 0),
            failed_in_group: HashMap::new(),
            dispatch_workers: vec![],
            pure_out: None,
        };
        let sched = SchedState {
            active: false,
            current: 0,
            runnable: vec![false; workers + 1],
            spawned: vec![false; workers + 1],
            remaining: vec![],
            script: sc.schedule.clone(),
            cursor: 0,
            taken: vec![],
            rng: Rng::new(sc.policy.seed),
            policy: sc.policy.clone(),
            prio: vec![0; workers + 1],
            low_prio: 0,
            change_points: vec![],
            decisions: 0,
            policy_decisions: 0,
            io_decisions: 0,
            last_op: vec![(OpKind::Yield, false); workers + 1],
            last_target_stdout: vec![false; workers + 1],
            switches: 0,
            panics: vec![],
            handles: vec![],
            job: None,
            detached: vec![],
        };
        SimWorld {
            inner: Mutex::new(inner),
            sched: Mutex::new(sched),
            cv: Condvar::new(),
            argv,
            report_fd,
        }
    }

    fn lock(&self) -> MutexGuard<'_, Inner> {
        self.inner.lock().unwrap_or_else(|e| e.into_inner())
    }
    fn lock_sched(&self) -> MutexGuard<'_, SchedState> {
        self.sched.lock().unwrap_or_else(|e| e.into_inner())
    }

    pub fn set_pure_out(&self, s: String) {
        self.lock().pure_out = Some(s);
    }

    // ------------------------------------------------------------------ scheduler

    /// Picks the next holder of the baton among the runnable workers and records the decision.
    fn decide_next(st: &mut SchedState, me: Option<u32>, tag: OpKind, name: &'static str) -> u32 {
        let cands: Vec<u32> = (1..st.runnable.len() as u32)
            .filter(|i| st.runnable[*i as usize])
            .collect();
        assert!(!cands.is_empty());
        let stay = me.filter(|m| cands.contains(m));
        let fallback = stay.unwrap_or(cands[0]);
        st.decisions += 1;
        let compute_level = tag == OpKind::Yield
            && (name.starts_with("format_") || name.starts_with("olf_") || name.starts_with("lexer_"));
        // (atomic accesses and lock acquisitions in the orchestrator and in main.rs are I/O-level:
        // there are few of them and they are exactly where shared state is touched)
        if !compute_level {
            st.io_decisions += 1;
        }
        let choice = if let Some(script) = &st.script {
            let v = script.get(st.cursor).copied();
            st.cursor += 1;
            match v {
                Some(v) if cands.contains(&v) => v,
                _ => fallback,
            }
        } else if name.ends_with("_wait") && cands.iter().any(|c| Some(*c) != me) {
            // the caller spins on a (simulated) lock that another worker holds: whatever the
            // policy, somebody else must run, and every other worker must get its turn
            // eventually, or a high-priority waiter would starve the holder for ever
            let others: Vec<u32> = cands.iter().copied().filter(|c| Some(*c) != me).collect();
            *st.rng.pick(&others)
        } else if st.policy.io_only && compute_level && stay.is_some() {
            fallback
        } else {
            st.policy_decisions += 1;
            match st.policy.kind {
                PolicyKind::Sequential => fallback,
                PolicyKind::Random => *st.rng.pick(&cands),
                PolicyKind::Sticky => match stay {
                    Some(m) if !st.rng.chance(1, 8) => m,
                    _ => *st.rng.pick(&cands),
                },
                PolicyKind::RunToCompletion => match stay {
                    Some(m) => m,
                    None => *st.rng.pick(&cands),
                },
                PolicyKind::RoundRobin => match stay {
                    Some(m) => *cands.iter().find(|c| **c > m).unwrap_or(&cands[0]),
                    None => cands[0],
                },
                PolicyKind::Pct => {
                    if st.change_points.contains(&st.policy_decisions) {
                        if let Some(m) = stay {
                            st.low_prio -= 1;
                            st.prio[m as usize] = st.low_prio;
                        }
                    }
                    *cands
                        .iter()
                        .max_by_key(|c| (st.prio[**c as usize], u32::MAX - **c))
                        .unwrap()
                }
                PolicyKind::Biased => match stay {
                    Some(m) => {
                        let (last, last_failed) = st.last_op[m as usize];
                        let hot = last == OpKind::Open
                            || st.last_target_stdout[m as usize]
                            || (last == OpKind::Read && last_failed)
                            || (last == OpKind::Write && tag == OpKind::SetLen)
                            || name.starts_with("lexer_dispatch");
                        let switch = if hot {
                            st.rng.chance(3, 4)
                        } else {
                            st.rng.chance(1, 16)
                        };
                        let others: Vec<u32> =
                            cands.iter().copied().filter(|c| *c != m).collect();
                        if switch && !others.is_empty() {
                            *st.rng.pick(&others)
                        } else {
                            m
                        }
                    }
                    None => *st.rng.pick(&cands),
                },
            }
        };
        st.taken.push(choice);
        choice
    }

    fn decide_chunk(st: &mut SchedState) -> usize {
        let n = st.remaining.len();
        Self::decide_chunk_of(st, n)
    }

    fn decide_chunk_of(st: &mut SchedState, n: usize) -> usize {
        assert!(n > 0);
        st.decisions += 1;
        let choice = if let Some(script) = &st.script {
            let v = script.get(st.cursor).copied();
            st.cursor += 1;
            match v {
                Some(v) if (v as usize) < n => v as usize,
                _ => 0,
            }
        } else {
            match st.policy.kind {
                PolicyKind::Sequential | PolicyKind::RoundRobin => 0,
                _ => st.rng.usize_below(n),
            }
        };
        st.taken.push(choice as u32);
        choice
    }

    fn spawn_worker(&'static self, st: &mut SchedState, id: u32, job: JobPtr) {
        st.spawned[id as usize] = true;
        let h = std::thread::Builder::new()
            .name(format!("sim-pool-{id}"))
            .stack_size(2 * 1024 * 1024)
            .spawn(move || {
                let job = job;
                WORKER.with(|w| w.set(id));
                self.worker_loop(id, job);
            })
            .expect("spawn simulated pool thread");
        st.handles.push(h);
    }

    /// Gives the baton to `next` (spawning its thread on first use).
    fn hand_over(&'static self, st: &mut SchedState, next: u32, job: Option<JobPtr>) {
        if next != 0 && !st.spawned[next as usize] {
            let job = job.expect("job pointer available while the fan-out is active");
            self.spawn_worker(st, next, job);
        }
        if st.current != next {
            st.switches += 1;
        }
        st.current = next;
        self.cv.notify_all();
    }

    fn wait_for_baton<'a>(
        &'a self,
        mut st: MutexGuard<'a, SchedState>,
        id: u32,
    ) -> MutexGuard<'a, SchedState> {
        while st.current != id {
            st = self.cv.wait(st).unwrap_or_else(|e| e.into_inner());
        }
        st
    }

    fn worker_loop(&'static self, id: u32, job: JobPtr) {
        {
            let st = self.lock_sched();
            drop(self.wait_for_baton(st, id));
        }
        loop {
            let chunk = {
                let mut st = self.lock_sched();
                if st.remaining.is_empty() {
                    None
                } else {
                    let idx = Self::decide_chunk(&mut st);
                    Some(st.remaining.remove(idx))
                }
            };
            let Some(range) = chunk else { break };
            self.lock().failed_in_group.insert(id, false);
            let result = std::panic::catch_unwind(std::panic::AssertUnwindSafe(|| {
                // SAFETY: see JobPtr.
                let f = unsafe { &*job.0 };
                f(range)
            }));
            if let Err(p) = result {
                let msg = panic_message(&p);
                self.lock_sched().panics.push(msg);
            }
            self.run_detached_of(id);
        }
        let mut st = self.lock_sched();
        st.runnable[id as usize] = false;
        let next = if st.runnable.iter().any(|r| *r) {
            Self::decide_next(&mut st, None, OpKind::Yield, "worker_done")
        } else {
            0
        };
        self.hand_over(&mut st, next, Some(job));
    }

    /// Runs the jobs that worker `id` handed to `rayon::spawn` (it has returned to the scheduler).
    fn run_detached_of(&self, id: u32) {
        loop {
            let job = {
                let mut st = self.lock_sched();
                match st.detached.iter().position(|(w, _)| *w == id) {
                    Some(ix) => Some(st.detached.remove(ix).1),
                    None => None,
                }
            };
            match job {
                Some(j) => j(),
                None => break,
            }
        }
    }

    /// A yield point: the holder of the baton lets the scheduler name the next runner.
    fn sched_yield(&'static self, tag: OpKind, name: &'static str) {
        let id = me();
        let mut st = self.lock_sched();
        if !st.active || id == 0 {
            return;
        }
        debug_assert_eq!(st.current, id);
        let next = Self::decide_next(&mut st, Some(id), tag, name);
        if next != id {
            let job = st.job;
            self.hand_over(&mut st, next, job);
            drop(self.wait_for_baton(st, id));
        }
    }

    fn note_last_op(&self, op: OpKind, failed: bool) {
        self.note_last_op_on(op, failed, false)
    }

    fn note_last_op_on(&self, op: OpKind, failed: bool, on_stdout: bool) {
        let id = me() as usize;
        let mut st = self.lock_sched();
        if id < st.last_op.len() {
            st.last_op[id] = (op, failed);
            st.last_target_stdout[id] = on_stdout;
        }
    }

    // ------------------------------------------------------------------ bookkeeping

    /// Start of every world operation: scheduling, step budget, fault lookup.
    /// Returns (seq, nth occurrence, fault to inject).
    fn begin(
        &'static self,
        target: &str,
        op: OpKind,
        name: &'static str,
    ) -> (MutexGuard<'static, Inner>, u64, u32, Option<FaultKind>) {
        self.sched_yield(op, name);
        let mut g = self.lock();
        g.steps += 1;
        if g.sc.step_budget > 0 && g.steps > g.sc.step_budget {
            self.finish_locked(&mut g, Exit::Budget);
        }
        g.seq += 1;
        let seq = g.seq;
        let key = (target.to_string(), op);
        let nth = {
            let c = g.counters.entry(key).or_insert(0);
            let n = *c;
            *c += 1;
            n
        };
        let fault = g.plan.get(&(target.to_string(), op, nth)).cloned().or_else(|| {
            g.persistent_plan
                .iter()
                .find(|(t, o, from, _)| t == target && *o == op && nth >= *from)
                .map(|x| x.3.clone())
        });
        if let Some(k) = &fault {
            g.fired.push(Fired {
                target: target.to_string(),
                op,
                nth,
                kind: k.clone(),
                seq,
            });
        }
        (g, seq, nth, fault)
    }

    fn end(
        &self,
        g: &mut Inner,
        seq: u64,
        target: &str,
        op: OpKind,
        arg: i64,
        res: i64,
        fault: Option<FaultKind>,
    ) {
        let worker = me();
        let th = hash_bytes(target.as_bytes());
        g.history_hash = mix(&[
            g.history_hash,
            seq,
            worker as u64,
            th,
            op as u64,
            arg as u64,
            res as u64,
            fault.as_ref().map(|f| hash_bytes(f.name().as_bytes())).unwrap_or(0),
        ]);
        g.interleave_hash = mix(&[g.interleave_hash, worker as u64, th, op as u64]);
        if g.sc.want_history {
            g.history.push(OpRec {
                seq,
                worker,
                target: target.to_string(),
                op,
                arg,
                res,
                fault,
            });
        }
    }

    fn probe(g: &mut Inner, name: &str) {
        *g.probes.entry(name.to_string()).or_insert(0) += 1;
    }

    fn violate(g: &mut Inner, what: String) {
        if g.invariants.len() < 32 {
            g.invariants.push(what);
        }
    }

    fn mutation(g: &mut Inner, path: &str, op: OpKind, seq: u64) {
        g.mutations.push(Mutation {
            path: path.to_string(),
            op,
            seq,
        });
        // (a path named several times is accessed several times; a failure of one access says
        // nothing about the others)
        // (the same holds for a file reachable under a second, hard-linked name)
        let named = g.sc.argv.iter().filter(|a| a.as_str() == path).count()
            + 2 * g.sc.hardlinks.iter().filter(|(a, t)| a == path || t == path).count();
        if let Some((_, at)) = g.read_failed.iter().find(|(p, _)| p == path).filter(|_| named <= 1) {
            let at = *at;
            Self::violate(
                g,
                format!("mutation_after_read_failure path={path} op={op:?} seq={seq} failed_at={at}"),
            );
        }
    }

    fn read_failure(g: &mut Inner, path: &str, seq: u64) {
        g.read_failed.push((path.to_string(), seq));
        g.failed_in_group.insert(me(), true);
    }

    fn check_path(g: &mut Inner, path: &str) {
        if !g.allowed_paths.iter().any(|p| p == path) {
            Self::violate(g, format!("foreign_path path={path}"));
        }
    }

    fn check_owner(g: &mut Inner, h: Handle, op: OpKind) -> Option<String> {
        let worker = me();
        match g.handles.get(&h) {
            None => {
                Self::violate(g, format!("use_of_closed_or_unknown_handle op={op:?}"));
                None
            }
            Some(oh) => {
                let path = oh.path.clone();
                if oh.owner != worker {
                    // not a violation of anything: an implementation may open files on one
                    // thread and hand them to another; only counted
                    Self::probe(g, "handle_used_by_a_worker_other_than_its_opener");
                }
                Some(path)
            }
        }
    }

    // ------------------------------------------------------------------ reporting

    pub fn build_result(g: &mut Inner, st: &SchedState, exit: Exit, real_stderr: String) -> RunResult {
        let mut files = vec![];
        let mut paths: Vec<String> = g.sc.files.iter().map(|f| f.path.clone()).collect();
        for p in g.files.keys() {
            if !paths.contains(p) {
                paths.push(p.clone());
            }
        }
        for p in paths {
            let init = g.sc.files.iter().find(|f| f.path == p && f.exists);
            let node_key = g.aliases.get(&p).cloned().unwrap_or_else(|| p.clone());
            match g.files.get(&node_key) {
                None => files.push(FinalFile {
                    path: p,
                    exists: false,
                    bytes: None,
                }),
                Some(node) => {
                    let unchanged = init.map(|f| f.bytes == node.bytes).unwrap_or(false);
                    files.push(FinalFile {
                        path: p,
                        exists: true,
                        bytes: if unchanged {
                            None
                        } else {
                            Some(node.bytes.clone())
                        },
                    })
                }
            }
        }
        if g.dispatch_workers.len() >= 2 {
            Self::probe(g, "dispatch_raced_by_2plus_workers");
        }
        RunResult {
            exit,
            files,
            stdout: std::mem::take(&mut g.stdout),
            stderr_lines: std::mem::take(&mut g.stderr_lines),
            real_stderr,
            logs: std::mem::take(&mut g.logs),
            steps: g.steps,
            switches: st.switches,
            history: if g.sc.want_history {
                Some(std::mem::take(&mut g.history))
            } else {
                None
            },
            history_hash: g.history_hash,
            interleave_hash: g.interleave_hash,
            schedule: st.taken.clone(),
            fired: std::mem::take(&mut g.fired),
            invariants: std::mem::take(&mut g.invariants),
            probes: std::mem::take(&mut g.probes),
            mutations: std::mem::take(&mut g.mutations),
            read_failed: std::mem::take(&mut g.read_failed),
            pure_out: g.pure_out.take(),
            items: g.items,
            wall_ms: 0,
            policy_decisions: st.io_decisions,
        }
    }

    /// Writes the report and leaves the process. Callable from any thread at any point.
    fn finish_locked(&self, g: &mut Inner, exit: Exit) -> ! {
        let st = self.sched.try_lock();
        let dummy;
        let st_ref: &SchedState = match &st {
            Ok(s) => s,
            Err(_) => {
                dummy = SchedState {
                    active: false,
                    current: 0,
                    runnable: vec![],
                    spawned: vec![],
                    remaining: vec![],
                    script: None,
                    cursor: 0,
                    taken: vec![],
                    rng: Rng::new(0),
                    policy: Policy::default(),
                    prio: vec![],
                    low_prio: 0,
                    change_points: vec![],
                    decisions: 0,
                    policy_decisions: 0,
                    io_decisions: 0,
                    last_op: vec![],
                    last_target_stdout: vec![],
                    switches: 0,
                    panics: vec![],
                    handles: vec![],
                    job: None,
                    detached: vec![],
                };
                &dummy
            }
        };
        let res = Self::build_result(g, st_ref, exit, crate::child::read_real_stderr());
        crate::child::send_report_and_exit(self.report_fd, &res)
    }

    pub fn finish(&self, exit: Exit) -> ! {
        let mut g = self.lock();
        self.finish_locked(&mut g, exit)
    }

    pub fn log_record(&'static self, level: &str, msg: String) {
        let (mut g, seq, _, _) = self.begin("<log>", OpKind::Log, "log");
        g.logs.push((level.to_string(), msg));
        self.end(&mut g, seq, "<log>", OpKind::Log, 0, 0, None);
    }
}

pub fn panic_message(p: &Box<dyn std::any::Any + Send>) -> String {
    if let Some(s) = p.downcast_ref::<&str>() {
        s.to_string()
    } else if let Some(s) = p.downcast_ref::<String>() {
        s.clone()
    } else {
        "<non-string panic payload>".to_string()
    }
}

/// The object handed to the product: forwards to the leaked `SimWorld`.
pub struct WorldRef(pub &'static SimWorld);

impl World for WorldRef {
    fn argv(&self) -> Option<Vec<String>> {
        Some(self.0.argv.clone())
    }

    fn open(&self, path: &Path, flags: &OpenFlags) -> io::Result<Handle> {
        let w = self.0;
        let p = norm_path(path);
        let (mut g, seq, _nth, fault) = w.begin(&p, OpKind::Open, "open");
        SimWorld::check_path(&mut g, &p);
        if g.failed_in_group.get(&me()).copied().unwrap_or(false) {
            SimWorld::probe(&mut g, "open_after_failed_item_in_same_group");
        }
        let flag_bits = (flags.read as i64)
            | (flags.write as i64) << 1
            | (flags.append as i64) << 2
            | (flags.truncate as i64) << 3
            | (flags.create as i64) << 4
            | (flags.create_new as i64) << 5;
        let wants_write = flags.write || flags.append;
        let result: Result<Handle, i32> = (|| {
            if let Some(k) = &fault {
                return Err(fault_errno(k));
            }
            if !flags.read && !wants_write {
                return Err(libc::EINVAL);
            }
            let limit = if g.sc.knobs.fd_limit == 0 { 1021 } else { g.sc.knobs.fd_limit as usize };
            if g.handles.len() >= limit {
                SimWorld::probe(&mut g, "open_refused_too_many_open_files");
                return Err(libc::EMFILE);
            }
            if (flags.truncate || flags.create || flags.create_new) && !wants_write {
                return Err(libc::EINVAL);
            }
            // (a second name may sit on a read-only mount: its own write permission counts)
            if wants_write && g.aliases.contains_key(&p) && g.sc.files.iter().any(|f| f.path == p && !f.writable) {
                return Err(libc::EACCES);
            }
            let p = g.aliases.get(&p).cloned().unwrap_or_else(|| p.clone());
            match g.files.get(&p) {
                None => {
                    if flags.create || flags.create_new {
                        g.files.insert(
                            p.clone(),
                            Node {
                                bytes: vec![],
                                readable: true,
                                writable: true,
                            },
                        );
                        SimWorld::mutation(&mut g, &p, OpKind::Open, seq);
                    } else {
                        return Err(libc::ENOENT);
                    }
                }
                Some(node) => {
                    if flags.create_new {
                        return Err(libc::EEXIST);
                    }
                    if (flags.read && !node.readable) || (wants_write && !node.writable) {
                        return Err(libc::EACCES);
                    }
                    if flags.truncate {
                        g.files.get_mut(&p).unwrap().bytes.clear();
                        SimWorld::mutation(&mut g, &p, OpKind::Open, seq);
                    }
                }
            }
            let h = g.next_handle;
            g.next_handle += 1;
            g.handles.insert(
                h,
                OpenHandle {
                    path: p.clone(),
                    pos: 0,
                    flags: flags.clone(),
                    owner: me(),
                },
            );
            Ok(h)
        })();
        let res = match &result {
            Ok(h) => *h as i64,
            Err(e) => -(*e as i64),
        };
        if result.is_err() {
            SimWorld::read_failure(&mut g, &p, seq);
        }
        w.end(&mut g, seq, &p, OpKind::Open, flag_bits, res, fault);
        drop(g);
        w.note_last_op(OpKind::Open, result.is_err());
        result.map_err(errno)
    }

    fn read(&self, h: Handle, buf: &mut [u8]) -> io::Result<usize> {
        let w = self.0;
        let path = {
            let mut g = w.lock();
            SimWorld::check_owner(&mut g, h, OpKind::Read)
        };
        let Some(path) = path else {
            return Err(errno(libc::EBADF));
        };
        let (mut g, seq, nth, fault) = w.begin(&path, OpKind::Read, "read");
        let result: Result<usize, i32> = (|| {
            let oh = g.handles.get(&h).ok_or(libc::EBADF)?;
            if !oh.flags.read {
                return Err(libc::EBADF);
            }
            let pos = oh.pos;
            let mut limit = chunk_limit(g.read_chunking.get(&path), pos, nth);
            match &fault {
                Some(FaultKind::Short(k)) => limit = limit.min((*k).max(1) as u64),
                Some(k) => return Err(fault_errno(k)),
                None => {}
            }
            let node = g.files.get(&path).ok_or(libc::EIO)?;
            let len = node.bytes.len() as u64;
            let avail = len.saturating_sub(pos);
            let n = (buf.len() as u64).min(avail).min(limit) as usize;
            let short = (n as u64) < (buf.len() as u64).min(avail);
            if n > 0 {
                // (a position beyond the end, after another handle truncated the file, reads 0)
                buf[..n].copy_from_slice(&node.bytes[pos as usize..pos as usize + n]);
            }
            let end = pos + n as u64;
            if n > 0 && (end == 1 || end == 2) && len >= 3 {
                let b = &node.bytes[..3];
                if b.starts_with(&[0xEF, 0xBB, 0xBF])
                    || (end == 1 && (b.starts_with(&[0xFF, 0xFE]) || b.starts_with(&[0xFE, 0xFF])))
                {
                    SimWorld::probe(&mut g, "bom_split_across_reads");
                }
            }
            g.handles.get_mut(&h).unwrap().pos = end;
            if short {
                SimWorld::probe(&mut g, "short_read_delivered");
            }
            Ok(n)
        })();
        let res = match &result {
            Ok(n) => *n as i64,
            Err(e) => -(*e as i64),
        };
        let fatal = matches!(&result, Err(e) if *e != libc::EINTR);
        if fatal {
            SimWorld::read_failure(&mut g, &path, seq);
        }
        w.end(&mut g, seq, &path, OpKind::Read, buf.len() as i64, res, fault);
        drop(g);
        w.note_last_op(OpKind::Read, fatal);
        result.map_err(errno)
    }

    fn write(&self, h: Handle, buf: &[u8]) -> io::Result<usize> {
        let w = self.0;
        let path = {
            let mut g = w.lock();
            SimWorld::check_owner(&mut g, h, OpKind::Write)
        };
        let Some(path) = path else {
            return Err(errno(libc::EBADF));
        };
        let (mut g, seq, nth, fault) = w.begin(&path, OpKind::Write, "write");
        let result: Result<usize, i32> = (|| {
            let oh = g.handles.get(&h).ok_or(libc::EBADF)?;
            if !(oh.flags.write || oh.flags.append) {
                return Err(libc::EBADF);
            }
            let append = oh.flags.append;
            let mut pos = oh.pos;
            let mut limit = chunk_limit(g.write_chunking.get(&path), pos, nth);
            match &fault {
                Some(FaultKind::Short(k)) => limit = limit.min((*k).max(1) as u64),
                Some(FaultKind::WriteZero) => return Ok(0),
                Some(k) => return Err(fault_errno(k)),
                None => {}
            }
            let n = (buf.len() as u64).min(limit) as usize;
            if n < buf.len() {
                SimWorld::probe(&mut g, "short_write_accepted");
            }
            let node = g.files.get_mut(&path).ok_or(libc::EIO)?;
            if append {
                pos = node.bytes.len() as u64;
            }
            let p = pos as usize;
            if n > 0 {
                if node.bytes.len() < p + n {
                    node.bytes.resize(p + n, 0);
                }
                node.bytes[p..p + n].copy_from_slice(&buf[..n]);
                SimWorld::mutation(&mut g, &path, OpKind::Write, seq);
            }
            g.handles.get_mut(&h).unwrap().pos = pos + n as u64;
            Ok(n)
        })();
        let res = match &result {
            Ok(n) => *n as i64,
            Err(e) => -(*e as i64),
        };
        w.end(&mut g, seq, &path, OpKind::Write, buf.len() as i64, res, fault);
        drop(g);
        w.note_last_op(OpKind::Write, result.is_err());
        result.map_err(errno)
    }

    fn flush(&self, h: Handle) -> io::Result<()> {
        let w = self.0;
        let path = {
            let mut g = w.lock();
            SimWorld::check_owner(&mut g, h, OpKind::Flush)
        };
        let Some(path) = path else {
            return Err(errno(libc::EBADF));
        };
        let (mut g, seq, _, fault) = w.begin(&path, OpKind::Flush, "flush");
        let res = fault.as_ref().map(fault_errno).unwrap_or(0);
        w.end(&mut g, seq, &path, OpKind::Flush, 0, -(res as i64), fault);
        drop(g);
        w.note_last_op(OpKind::Flush, res != 0);
        if res != 0 {
            Err(errno(res))
        } else {
            Ok(())
        }
    }

    fn seek(&self, h: Handle, pos: SeekFrom) -> io::Result<u64> {
        let w = self.0;
        let path = {
            let mut g = w.lock();
            SimWorld::check_owner(&mut g, h, OpKind::Seek)
        };
        let Some(path) = path else {
            return Err(errno(libc::EBADF));
        };
        let (mut g, seq, _, fault) = w.begin(&path, OpKind::Seek, "seek");
        let result: Result<u64, i32> = (|| {
            if let Some(k) = &fault {
                return Err(fault_errno(k));
            }
            let len = g.files.get(&path).map(|n| n.bytes.len() as i128).unwrap_or(0);
            let oh = g.handles.get_mut(&h).ok_or(libc::EBADF)?;
            let target: i128 = match pos {
                SeekFrom::Start(o) => o as i128,
                SeekFrom::Current(d) => oh.pos as i128 + d as i128,
                SeekFrom::End(d) => len + d as i128,
            };
            if target < 0 || target > i64::MAX as i128 {
                return Err(libc::EINVAL);
            }
            oh.pos = target as u64;
            Ok(oh.pos)
        })();
        let arg = match pos {
            SeekFrom::Start(o) => o as i64,
            SeekFrom::Current(d) | SeekFrom::End(d) => d,
        };
        let res = match &result {
            Ok(n) => *n as i64,
            Err(e) => -(*e as i64),
        };
        w.end(&mut g, seq, &path, OpKind::Seek, arg, res, fault);
        drop(g);
        w.note_last_op(OpKind::Seek, result.is_err());
        result.map_err(errno)
    }

    fn set_len(&self, h: Handle, len: u64) -> io::Result<()> {
        let w = self.0;
        let path = {
            let mut g = w.lock();
            SimWorld::check_owner(&mut g, h, OpKind::SetLen)
        };
        let Some(path) = path else {
            return Err(errno(libc::EBADF));
        };
        let (mut g, seq, _, fault) = w.begin(&path, OpKind::SetLen, "set_len");
        let result: Result<(), i32> = (|| {
            if let Some(k) = &fault {
                return Err(fault_errno(k));
            }
            let oh = g.handles.get(&h).ok_or(libc::EBADF)?;
            if !(oh.flags.write || oh.flags.append) {
                return Err(libc::EINVAL);
            }
            let node = g.files.get_mut(&path).ok_or(libc::EIO)?;
            if node.bytes.len() as u64 > len {
                SimWorld::probe(&mut g, "set_len_shrank_file");
            }
            let node = g.files.get_mut(&path).unwrap();
            if node.bytes.len() as u64 != len {
                node.bytes.resize(len as usize, 0);
                SimWorld::mutation(&mut g, &path, OpKind::SetLen, seq);
            }
            Ok(())
        })();
        let res = match &result {
            Ok(()) => 0,
            Err(e) => -(*e as i64),
        };
        w.end(&mut g, seq, &path, OpKind::SetLen, len as i64, res, fault);
        drop(g);
        w.note_last_op(OpKind::SetLen, result.is_err());
        result.map_err(errno)
    }

    fn sync(&self, h: Handle) -> io::Result<()> {
        let w = self.0;
        let path = {
            let mut g = w.lock();
            SimWorld::check_owner(&mut g, h, OpKind::Sync)
        };
        let Some(path) = path else {
            return Err(errno(libc::EBADF));
        };
        let (mut g, seq, _, fault) = w.begin(&path, OpKind::Sync, "sync");
        let res = fault.as_ref().map(fault_errno).unwrap_or(0);
        w.end(&mut g, seq, &path, OpKind::Sync, 0, -(res as i64), fault);
        drop(g);
        if res != 0 {
            Err(errno(res))
        } else {
            Ok(())
        }
    }

    fn file_len(&self, h: Handle) -> io::Result<u64> {
        let w = self.0;
        let path = {
            let mut g = w.lock();
            SimWorld::check_owner(&mut g, h, OpKind::Len)
        };
        let Some(path) = path else {
            return Err(errno(libc::EBADF));
        };
        let (mut g, seq, _, fault) = w.begin(&path, OpKind::Len, "file_len");
        let len = g.files.get(&path).map(|n| n.bytes.len() as u64).unwrap_or(0);
        w.end(&mut g, seq, &path, OpKind::Len, 0, len as i64, fault.clone());
        drop(g);
        match fault {
            Some(k) => Err(errno(fault_errno(&k))),
            None => Ok(len),
        }
    }

    fn close(&self, h: Handle) {
        let w = self.0;
        let path = {
            let mut g = w.lock();
            SimWorld::check_owner(&mut g, h, OpKind::Close)
        };
        let Some(path) = path else { return };
        let (mut g, seq, _, _) = w.begin(&path, OpKind::Close, "close");
        g.handles.remove(&h);
        w.end(&mut g, seq, &path, OpKind::Close, 0, 0, None);
        drop(g);
        w.note_last_op(OpKind::Close, false);
    }

    fn path_len(&self, path: &Path) -> io::Result<u64> {
        let w = self.0;
        let p = norm_path(path);
        let (mut g, seq, _, fault) = w.begin(&p, OpKind::Len, "path_len");
        SimWorld::check_path(&mut g, &p);
        let r = match (&fault, g.files.get(&p)) {
            (Some(k), _) => Err(fault_errno(k)),
            (None, Some(n)) => Ok(n.bytes.len() as u64),
            (None, None) => Err(libc::ENOENT),
        };
        let res = match &r {
            Ok(n) => *n as i64,
            Err(e) => -(*e as i64),
        };
        w.end(&mut g, seq, &p, OpKind::Len, 0, res, fault);
        r.map_err(errno)
    }

    fn rename(&self, from: &Path, to: &Path) -> io::Result<()> {
        let w = self.0;
        let f = norm_path(from);
        let t = norm_path(to);
        let (mut g, seq, _, fault) = w.begin(&t, OpKind::Rename, "rename");
        let r: Result<(), i32> = (|| {
            if let Some(k) = &fault {
                return Err(fault_errno(k));
            }
            let node = g.files.remove(&f).ok_or(libc::ENOENT)?;
            g.files.insert(t.clone(), node);
            SimWorld::mutation(&mut g, &f, OpKind::Rename, seq);
            SimWorld::mutation(&mut g, &t, OpKind::Rename, seq);
            Ok(())
        })();
        let res = r.as_ref().err().map(|e| -(*e as i64)).unwrap_or(0);
        w.end(&mut g, seq, &t, OpKind::Rename, 0, res, fault);
        r.map_err(errno)
    }

    fn remove_file(&self, path: &Path) -> io::Result<()> {
        let w = self.0;
        let p = norm_path(path);
        let (mut g, seq, _, fault) = w.begin(&p, OpKind::Remove, "remove");
        let r: Result<(), i32> = (|| {
            if let Some(k) = &fault {
                return Err(fault_errno(k));
            }
            g.files.remove(&p).ok_or(libc::ENOENT)?;
            SimWorld::mutation(&mut g, &p, OpKind::Remove, seq);
            Ok(())
        })();
        let res = r.as_ref().err().map(|e| -(*e as i64)).unwrap_or(0);
        w.end(&mut g, seq, &p, OpKind::Remove, 0, res, fault);
        r.map_err(errno)
    }

    fn stdin_read(&self, buf: &mut [u8]) -> io::Result<usize> {
        let w = self.0;
        let (mut g, seq, nth, fault) = w.begin(STDIN, OpKind::Read, "stdin_read");
        let result: Result<usize, i32> = (|| {
            let pos = g.stdin_pos as u64;
            let mut limit = chunk_limit(g.read_chunking.get(STDIN), pos, nth);
            match &fault {
                Some(FaultKind::Short(k)) => limit = limit.min((*k).max(1) as u64),
                Some(k) => return Err(fault_errno(k)),
                None => {}
            }
            let avail = g.sc.stdin.len() as u64 - pos;
            let n = (buf.len() as u64).min(avail).min(limit) as usize;
            if (n as u64) < (buf.len() as u64).min(avail) {
                SimWorld::probe(&mut g, "short_read_delivered");
            }
            let p = pos as usize;
            buf[..n].copy_from_slice(&g.sc.stdin[p..p + n]);
            let end = p + n;
            if n > 0 && (end == 1 || end == 2) && g.sc.stdin.len() >= 3 {
                let b = &g.sc.stdin[..3];
                if b.starts_with(&[0xEF, 0xBB, 0xBF])
                    || (end == 1 && (b.starts_with(&[0xFF, 0xFE]) || b.starts_with(&[0xFE, 0xFF])))
                {
                    SimWorld::probe(&mut g, "bom_split_across_reads");
                }
            }
            g.stdin_pos = end;
            Ok(n)
        })();
        let res = match &result {
            Ok(n) => *n as i64,
            Err(e) => -(*e as i64),
        };
        let fatal = matches!(&result, Err(e) if *e != libc::EINTR);
        if fatal {
            SimWorld::read_failure(&mut g, STDIN, seq);
        }
        w.end(&mut g, seq, STDIN, OpKind::Read, buf.len() as i64, res, fault);
        result.map_err(errno)
    }

    fn stdin_is_terminal(&self) -> bool {
        self.0.lock().sc.knobs.stdin_tty
    }

    fn stdout_write(&self, buf: &[u8]) -> io::Result<usize> {
        let w = self.0;
        let (mut g, seq, nth, fault) = w.begin(STDOUT, OpKind::Write, "stdout_write");
        // a write through the unlocked handle takes the lock for just this write: it waits
        // while another worker holds the lock explicitly
        while matches!(g.stdout_locked_by, Some(o) if o != me()) {
            g.steps += 1;
            if g.sc.step_budget > 0 && g.steps > g.sc.step_budget {
                w.finish_locked(&mut g, Exit::Budget);
            }
            drop(g);
            w.sched_yield(OpKind::Lock, "stdout_lock_wait");
            g = w.lock();
        }
        let result: Result<usize, i32> = (|| {
            let pos = g.stdout.len() as u64;
            let mut limit = chunk_limit(g.write_chunking.get(STDOUT), pos, nth);
            match &fault {
                Some(FaultKind::Short(k)) => limit = limit.min((*k).max(1) as u64),
                Some(FaultKind::WriteZero) => return Ok(0),
                Some(k) => return Err(fault_errno(k)),
                None => {}
            }
            let n = (buf.len() as u64).min(limit) as usize;
            if n < buf.len() {
                SimWorld::probe(&mut g, "short_write_accepted");
            }
            g.stdout.extend_from_slice(&buf[..n]);
            Ok(n)
        })();
        let res = match &result {
            Ok(n) => *n as i64,
            Err(e) => -(*e as i64),
        };
        w.end(&mut g, seq, STDOUT, OpKind::Write, buf.len() as i64, res, fault);
        drop(g);
        w.note_last_op_on(OpKind::Write, result.is_err(), true);
        result.map_err(errno)
    }

    fn stdout_flush(&self) -> io::Result<()> {
        let w = self.0;
        let (mut g, seq, _, fault) = w.begin(STDOUT, OpKind::Flush, "stdout_flush");
        let res = fault.as_ref().map(fault_errno).unwrap_or(0);
        w.end(&mut g, seq, STDOUT, OpKind::Flush, 0, -(res as i64), fault);
        if res != 0 {
            Err(errno(res))
        } else {
            Ok(())
        }
    }

    fn stdout_is_terminal(&self) -> bool {
        self.0.lock().sc.knobs.stdout_tty
    }

    fn stdout_lock(&self) {
        let w = self.0;
        loop {
            {
                let mut g = w.lock();
                match g.stdout_locked_by {
                    None => {
                        g.stdout_locked_by = Some(me());
                        g.stdout_lock_depth = 1;
                        return;
                    }
                    Some(o) if o == me() => {
                        // std's stdout lock is re-entrant
                        g.stdout_lock_depth += 1;
                        return;
                    }
                    Some(_) => {}
                }
            }
            let (mut g, seq, _, _) = w.begin(STDOUT, OpKind::Lock, "stdout_lock_wait");
            w.end(&mut g, seq, STDOUT, OpKind::Lock, 0, 0, None);
        }
    }

    fn stdout_unlock(&self) {
        let mut g = self.0.lock();
        if g.stdout_locked_by == Some(me()) {
            g.stdout_lock_depth = g.stdout_lock_depth.saturating_sub(1);
            if g.stdout_lock_depth == 0 {
                g.stdout_locked_by = None;
            }
        }
    }

    fn stdout_print(&self, text: &str) -> io::Result<()> {
        let w = self.0;
        let (mut g, seq, _, fault) = w.begin(STDOUT, OpKind::Print, "print");
        // std's print! takes the stdout lock: wait while another worker holds it explicitly
        while matches!(g.stdout_locked_by, Some(o) if o != me()) {
            g.steps += 1;
            if g.sc.step_budget > 0 && g.steps > g.sc.step_budget {
                w.finish_locked(&mut g, Exit::Budget);
            }
            drop(g);
            w.sched_yield(OpKind::Lock, "stdout_lock_wait");
            g = w.lock();
        }
        let r = match &fault {
            Some(k) if !k.is_benign() => Err(fault_errno(k)),
            _ => {
                g.stdout.extend_from_slice(text.as_bytes());
                Ok(())
            }
        };
        let res = r.as_ref().err().map(|e| -(*e as i64)).unwrap_or(text.len() as i64);
        w.end(&mut g, seq, STDOUT, OpKind::Print, text.len() as i64, res, fault);
        drop(g);
        w.note_last_op_on(OpKind::Print, r.is_err(), true);
        r.map_err(errno)
    }

    fn stderr_line(&self, text: &str) {
        let w = self.0;
        let (mut g, seq, _, _) = w.begin("<stderr>", OpKind::Eprint, "eprintln");
        g.stderr_lines.push(text.to_string());
        w.end(&mut g, seq, "<stderr>", OpKind::Eprint, text.len() as i64, 0, None);
    }

    fn par_execute(&self, n: usize, job: &(dyn Fn(Range<usize>) + Sync)) {
        let w = self.0;
        // the partition into contiguous groups
        let (lens, workers) = {
            let mut g = w.lock();
            g.items.0 += n as u64;
            let mut lens = g.sc.chunks.clone();
            lens.retain(|l| *l > 0);
            if lens.iter().sum::<usize>() != n {
                // re-derive (edited or minimised scenarios): keep the prefix that fits,
                // then one group with the rest
                let mut fixed = vec![];
                let mut left = n;
                for l in lens {
                    if left == 0 {
                        break;
                    }
                    let l = l.min(left);
                    fixed.push(l);
                    left -= l;
                }
                if left > 0 {
                    fixed.push(left);
                }
                lens = fixed;
            }
            (lens, g.sc.workers.max(1))
        };
        let mut ranges = vec![];
        let mut at = 0;
        for l in lens {
            ranges.push(at..at + l);
            at += l;
        }
        if n == 0 {
            return;
        }
        if workers <= 1 || me() != 0 {
            // inline: the caller folds every group itself, in an order the scheduler decides
            // (a fan-out nested inside a pool job keeps its own list of groups)
            let mut remaining = ranges;
            loop {
                let chunk = {
                    let mut st = w.lock_sched();
                    if remaining.is_empty() {
                        None
                    } else {
                        let idx = SimWorld::decide_chunk_of(&mut st, remaining.len());
                        Some(remaining.remove(idx))
                    }
                };
                let Some(range) = chunk else { break };
                w.lock().failed_in_group.insert(me(), false);
                job(range);
                w.run_detached_of(me());
            }
            return;
        }

        // SAFETY: see JobPtr; only the lifetime is erased, and every thread is joined below.
        let ptr = JobPtr(unsafe {
            std::mem::transmute::<
                *const (dyn Fn(Range<usize>) + Sync + '_),
                *const (dyn Fn(Range<usize>) + Sync + 'static),
            >(job as *const _)
        });
        {
            let mut st = w.lock_sched();
            st.active = true;
            st.remaining = ranges;
            for id in 1..=workers {
                st.runnable[id] = true;
                st.spawned[id] = false;
            }
            if st.policy.kind == PolicyKind::Pct && st.script.is_none() {
                let mut ids: Vec<i64> = (1..=workers as i64).collect();
                st.rng.shuffle(&mut ids);
                for (i, id) in ids.iter().enumerate() {
                    st.prio[*id as usize] = (i + 1) as i64;
                }
                // decisions per item: a dozen I/O-level ones, thousands with compute-level yields
                let est = if st.policy.horizon > 0 {
                    st.policy.horizon
                } else if st.policy.io_only {
                    16 * n as u64 + 8
                } else {
                    400 * n as u64 + 8
                };
                let depth = st.policy.depth;
                st.change_points = (0..depth).map(|_| 1 + st.rng.below(est)).collect();
            }
            st.job = Some(ptr);
            let first = SimWorld::decide_next(&mut st, None, OpKind::Yield, "fan_out_start");
            w.hand_over(&mut st, first, Some(ptr));
            let mut st = w.wait_for_baton(st, 0);
            st.active = false;
            let handles = std::mem::take(&mut st.handles);
            drop(st);
            for h in handles {
                let _ = h.join();
            }
            w.lock_sched().job = None;
        }
        loop {
            let job = {
                let mut st = w.lock_sched();
                if st.detached.is_empty() { None } else { Some(st.detached.remove(0).1) }
            };
            match job {
                Some(j) => j(),
                None => break,
            }
        }
        let panics = std::mem::take(&mut w.lock_sched().panics);
        if let Some(first) = panics.into_iter().next() {
            std::panic::resume_unwind(Box::new(first));
        }
    }

    fn pool_threads(&self) -> usize {
        self.0.lock().sc.workers.max(1)
    }

    fn spawn_detached(&self, job: Box<dyn FnOnce() + Send + 'static>) {
        let w = self.0;
        let mut st = w.lock_sched();
        st.detached.push((me(), job));
    }

    fn stderr_line_checked(&self, text: &str) -> io::Result<()> {
        let w = self.0;
        let (mut g, seq, _, fault) = w.begin("<stderr>", OpKind::Eprint, "eprintln");
        let r = match &fault {
            Some(k) if !k.is_benign() => Err(fault_errno(k)),
            _ => {
                g.stderr_lines.push(text.to_string());
                Ok(())
            }
        };
        let res = r.as_ref().err().map(|e| -(*e as i64)).unwrap_or(0);
        w.end(&mut g, seq, "<stderr>", OpKind::Eprint, text.len() as i64, res, fault);
        r.map_err(errno)
    }

    fn yield_point(&self, tag: &'static str) {
        let w = self.0;
        if tag == "item_done" {
            let mut g = w.lock();
            g.items.1 += 1;
            drop(g);
            w.sched_yield(OpKind::Yield, tag);
            return;
        }
        if tag.starts_with("lexer_dispatch") {
            let mut g = w.lock();
            let id = me();
            if tag == "lexer_dispatch_unresolved" && !g.dispatch_workers.contains(&id) {
                g.dispatch_workers.push(id);
            }
            SimWorld::probe(&mut g, tag);
            drop(g);
        }
        if !tag.ends_with("_wait") {
            w.lock().progress += 1;
        }
        if tag == "atomic_access" || tag.ends_with("_wait") || tag == "mutex_lock" || tag == "channel_send" {
            // synchronisation points are few in a correct run; counting them lets a spin loop
            // run into the step budget (bounded liveness) instead of the wall-clock watchdog
            let mut g = w.lock();
            if tag.ends_with("_wait") {
                // a waiter is not charged for spins during which the others got on with their
                // work (a lock held across the formatting of a large file is legitimate; a real
                // lock would block without consuming anything): only a spin with no progress in
                // between counts, so that a genuine dead- or livelock still exhausts the budget
                let marker = g.progress + g.seq;
                let id = me();
                if g.last_wait_seen.insert(id, marker) != Some(marker) {
                    drop(g);
                    w.sched_yield(OpKind::Yield, tag);
                    return;
                }
            }
            g.steps += 1;
            if g.sc.step_budget > 0 && g.steps > g.sc.step_budget {
                w.finish_locked(&mut g, Exit::Budget);
            }
        }
        w.sched_yield(OpKind::Yield, tag);
    }
}


impl SimWorld {
    pub fn knob_avx2(&self) -> bool {
        self.lock().sc.knobs.avx2
    }

    /// Used from the `atexit` handler: report, but let `exit` carry on with its own status.
    pub fn report_without_exit(&self, exit: Exit) {
        let mut g = self.lock();
        let st = self.lock_sched();
        let res = Self::build_result(&mut g, &st, exit, crate::child::read_real_stderr());
        crate::child::send_report(self.report_fd, &res);
    }
}
