//! The program under test: `front-end/src/main.rs`, included verbatim. Only the name
//! `stderrlog` is re-bound (to a recording logger), and a public wrapper is added because
//! `main` is private.

#[allow(dead_code)]
mod stderrlog {
    pub struct StdErrLog {
        level: log::LevelFilter,
    }
    pub fn new() -> StdErrLog {
        StdErrLog {
            level: log::LevelFilter::Error,
        }
    }
    impl StdErrLog {
        pub fn verbosity(&mut self, level: log::LevelFilter) -> &mut Self {
            self.level = level;
            self
        }
        pub fn init(&mut self) -> Result<(), log::SetLoggerError> {
            // Pinned at WARN at most: the only wall-clock value in the product (`Instant::now`
            // in file_formatter.rs) flows into a `debug!` message, which is then never built.
            log::set_max_level(self.level.min(log::LevelFilter::Warn));
            log::set_logger(&crate::child::SimLogger)
        }
    }
}

mod real_main {
    use super::stderrlog;
    include!("/repo/front-end/src/main.rs");

    pub fn run() -> i32 {
        if main() == ExitCode::SUCCESS {
            0
        } else {
            1
        }
    }
}

pub fn run() -> i32 {
    real_main::run()
}
