//! The program under test: `front-end/src/main.rs`, included verbatim. Only the name
//! `stderrlog` is re-bound (to a recording logger), and a public wrapper is added because
//! `main` is private.

/// Stand-in for the `stderrlog` crate with the same builder surface (so that plausible edits of
/// `main.rs` keep compiling), backed by the simulated world's recording logger.
#[allow(dead_code)]
mod stderrlog {
    use log::LevelFilter;

    #[derive(Clone, Copy, Debug, PartialEq, Eq)]
    pub enum ColorChoice {
        Always,
        AlwaysAnsi,
        Auto,
        Never,
    }

    #[derive(Clone, Copy, Debug, PartialEq, Eq)]
    pub enum Timestamp {
        Off,
        Second,
        Millisecond,
        Microsecond,
        Nanosecond,
    }

    pub struct LogLevelNum(LevelFilter);
    impl From<usize> for LogLevelNum {
        fn from(v: usize) -> Self {
            LogLevelNum(match v {
                0 => LevelFilter::Error,
                1 => LevelFilter::Warn,
                2 => LevelFilter::Info,
                3 => LevelFilter::Debug,
                _ => LevelFilter::Trace,
            })
        }
    }
    impl From<log::Level> for LogLevelNum {
        fn from(v: log::Level) -> Self {
            LogLevelNum(v.to_level_filter())
        }
    }
    impl From<LevelFilter> for LogLevelNum {
        fn from(v: LevelFilter) -> Self {
            LogLevelNum(v)
        }
    }

    #[derive(Clone, Debug)]
    pub struct StdErrLog {
        level: LevelFilter,
        quiet: bool,
    }

    pub fn new() -> StdErrLog {
        StdErrLog {
            level: LevelFilter::Error,
            quiet: false,
        }
    }

    impl StdErrLog {
        pub fn new() -> StdErrLog {
            new()
        }
        pub fn verbosity<V: Into<LogLevelNum>>(&mut self, verbosity: V) -> &mut Self {
            self.level = verbosity.into().0;
            self
        }
        pub fn quiet(&mut self, quiet: bool) -> &mut Self {
            self.quiet = quiet;
            self
        }
        pub fn show_level(&mut self, _v: bool) -> &mut Self {
            self
        }
        pub fn show_module_names(&mut self, _v: bool) -> &mut Self {
            self
        }
        pub fn timestamp(&mut self, _t: Timestamp) -> &mut Self {
            self
        }
        pub fn color(&mut self, _c: ColorChoice) -> &mut Self {
            self
        }
        pub fn module<T: Into<String>>(&mut self, _m: T) -> &mut Self {
            self
        }
        pub fn modules<T: Into<String>, I: IntoIterator<Item = T>>(&mut self, _m: I) -> &mut Self {
            self
        }
        /// Pinned at WARN at most: the only wall-clock value in the product (`Instant::now` in
        /// file_formatter.rs) flows into a `debug!` message, which is then never built.
        fn effective(&self) -> LevelFilter {
            if self.quiet {
                LevelFilter::Off
            } else {
                self.level.min(LevelFilter::Warn)
            }
        }
        pub fn init(&mut self) -> Result<(), log::SetLoggerError> {
            log::set_max_level(self.effective());
            log::set_boxed_logger(Box::new(self.clone()))
        }
    }

    impl log::Log for StdErrLog {
        fn enabled(&self, metadata: &log::Metadata) -> bool {
            metadata.level() <= self.effective()
        }
        fn log(&self, record: &log::Record) {
            if self.enabled(record.metadata()) {
                crate::child::record_log(record.level().as_str(), format!("{}", record.args()));
            }
        }
        fn flush(&self) {}
    }
}

mod real_main {
    use super::stderrlog;
    // atomics named through `std::sync::atomic` in main.rs are scheduling points too
    #[allow(unused_imports)]
    use pasfmt_orchestrator::verif_seam::shadow::std;
    include!("/repo/front-end/src/main.rs");

    pub fn run() -> i32 {
        if main() == ExitCode::SUCCESS {
            0
        } else {
            1
        }
    }
}

pub fn run() -> i32 {
    real_main::run()
}
