//! pasfmt-sim: deterministic simulation with fault injection for pasfmt's I/O and fan-out layer.
//!
//!   pasfmt-sim check <C16|C17|C18> [--tier quick|thorough] [--procs N]
//!   pasfmt-sim replay <file>
//!   pasfmt-sim worker|digest ...      (internal)
//!
//! Exit status: 0 = property held on everything explored; 1 = `VIOLATION property=<id>
//! replay=<path>` printed; 2 = harness error (never a verdict).

#![recursion_limit = "512"]

mod case;
mod check;
mod child;
mod codec;
mod gen;
mod minimize;
mod product;
mod rng;
mod scenario;
mod world;

use case::*;
use check::*;
use serde::{Deserialize, Serialize};
use std::io::{BufRead, Write};
use std::time::Instant;

const DEFAULT_SEED: u64 = 20_261_002;

fn verif_dir() -> String {
    std::env::var("VERIF_DIR").unwrap_or_else(|_| "/verif".to_string())
}
fn repo_dir() -> String {
    std::env::var("PASFMT_REPO").unwrap_or_else(|_| "/repo".to_string())
}

#[derive(Serialize, Deserialize, Clone, Debug)]
struct ReplayFile {
    property: String,
    oracle: String,
    detail: String,
    seed: u64,
    run: u64,
    /// size of the case before minimisation (bytes of content, faults, schedule decisions)
    original_size: (usize, usize, usize),
    case: Case,
}

#[derive(Serialize, Deserialize, Debug)]
#[serde(tag = "type", rename_all = "snake_case")]
enum WorkerMsg {
    Violation { replay: ReplayFile },
    HarnessError { message: String },
    Done {
        stats: Stats,
        case_hashes: Vec<u64>,
        nontrivial_hashes: Vec<u64>,
        samples: Vec<String>,
        sample_cases: Vec<Case>,
        runs_done: u64,
        truncated: bool,
    },
}

fn case_size(c: &Case) -> (usize, usize, usize) {
    (
        c.files.iter().map(|f| f.bytes.len()).sum(),
        c.faults.len() + c.chunking.len(),
        c.schedule.as_ref().map(|s| s.len()).unwrap_or(0),
    )
}

fn emit(msg: &WorkerMsg) {
    let out = std::io::stdout();
    let mut l = out.lock();
    let _ = writeln!(l, "{}", serde_json::to_string(msg).unwrap());
    let _ = l.flush();
}

fn is_nontrivial(c: &Case) -> bool {
    let has_content = c.files.iter().any(|f| f.exists && !f.bytes.is_empty());
    has_content
}

/// A counter shared by the worker processes of one check (a file mapped MAP_SHARED): which
/// process executes run i does not influence run i, so handing out indices dynamically keeps
/// every run reproducible while balancing the load.
struct SharedCounter(*const std::sync::atomic::AtomicU64);

impl SharedCounter {
    fn open(path: &str) -> Option<SharedCounter> {
        let c = std::ffi::CString::new(path).ok()?;
        // SAFETY: mapping 8 bytes of a file this check created; the mapping lives as long as
        // the process and is only accessed through an atomic.
        unsafe {
            let fd = libc::open(c.as_ptr(), libc::O_RDWR);
            if fd < 0 {
                return None;
            }
            let p = libc::mmap(std::ptr::null_mut(), 8, libc::PROT_READ | libc::PROT_WRITE, libc::MAP_SHARED, fd, 0);
            libc::close(fd);
            if p == libc::MAP_FAILED {
                return None;
            }
            Some(SharedCounter(p as *const std::sync::atomic::AtomicU64))
        }
    }
    fn next(&self) -> u64 {
        // SAFETY: see open.
        unsafe { (*self.0).fetch_add(1, std::sync::atomic::Ordering::SeqCst) }
    }
}

fn worker(prop: &str, tier: Tier, seed: u64, index: u64, of: u64) {
    let counter = std::env::var("VERIF_COUNTER_FILE").ok().and_then(|p| SharedCounter::open(&p));
    let corpus = gen::Corpus::load(&repo_dir());
    let p = params(prop, tier);
    let cap_s: u64 = std::env::var("VERIF_TIME_CAP_S")
        .ok()
        .and_then(|s| s.parse().ok())
        .unwrap_or(if tier == Tier::Quick { 600 } else { 6 * 3600 });
    let start = Instant::now();
    let mut stats = Stats::default();
    let mut case_hashes = std::collections::BTreeSet::new();
    let mut nontrivial = std::collections::BTreeSet::new();
    let mut samples = vec![];
    let mut sample_cases = vec![];
    let mut violations = 0;
    let mut reported_oracles = std::collections::BTreeSet::new();
    let mut runs_done = 0;
    let mut truncated = false;
    let mut run = match &counter {
        Some(c) => c.next(),
        None => index,
    };
    while run < p.runs {
        if start.elapsed().as_secs() > cap_s {
            truncated = true;
            break;
        }
        let t_run = Instant::now();
        let g = generate(prop, tier, seed, run, &corpus, &mut stats);
        let t_gen = t_run.elapsed();
        if samples.len() < 2 {
            samples.push(g.describe.clone());
            if let Some(c) = g.cases.iter().find(|c| !c.faults.is_empty()).or(g.cases.first()) {
                if case_size(c).0 < 2048 && sample_cases.len() < 1 {
                    sample_cases.push(c.clone());
                }
            }
        }
        // C18: each batch is run under its generated policy and then under a few follow-up
        // schedules (PCT with change points spread over the number of decisions measured in the
        // first run); the per-file alone results are shared through the reference memo
        let mut queue: Vec<Case> = g.cases.clone();
        let mut ci = 0;
        while ci < queue.len() {
            let c = &queue[ci].clone();
            let is_followup = ci >= g.cases.len();
            stats.cases += 1;
            if c.faults.is_empty() && c.chunking.is_empty() {
                stats.cases_fault_free += 1;
            } else {
                stats.cases_with_faults += 1;
            }
            *stats.by_mode.entry(format!("case:{}", c.mode.name())).or_insert(0) += 1;
            let h = rng::hash_bytes(serde_json::to_string(c).unwrap().as_bytes());
            match c.evaluate(&mut stats) {
                Verdict::Judged(findings) => {
                    if prop == "C18" && !is_followup && findings.is_empty() && c.workers >= 2 && c.files.len() >= 2 && c.files.len() <= 16 {
                        let horizon = stats.last_policy_decisions.max(4);
                        let extra = if tier == Tier::Quick { 3 } else { 6 };
                        for j in 0..extra {
                            let mut v = c.clone();
                            v.schedule = None;
                            v.policy = scenario::Policy {
                                kind: scenario::PolicyKind::Pct,
                                seed: rng::mix(&[c.policy.seed, j, 0xF0110]),
                                depth: if j % 3 == 2 { 2 } else { 1 },
                                io_only: true,
                                horizon,
                            };
                            queue.push(v);
                            stats.followup_schedules += 1;
                        }
                    }
                    case_hashes.insert(h);
                    if is_nontrivial(c) {
                        nontrivial.insert(h);
                    }
                    // determinism spot check: same case, same verdict, same observables
                    if (run + ci as u64) % 37 == 0 && !is_followup {
                        let a = child::run_scenario(&c.to_scenario());
                        let b = child::run_scenario(&c.to_scenario());
                        stats.determinism_pairs += 1;
                        if result_digest(&a) != result_digest(&b) {
                            emit(&WorkerMsg::HarnessError {
                                message: format!("nondeterministic replay of run {run} case {ci}"),
                            });
                        }
                    }
                    // one minimised report per oracle and worker is enough (the driver keeps
                    // one per oracle anyway)
                    if let Some(f) = findings.iter().find(|f| !reported_oracles.contains(&f.oracle)) {
                        reported_oracles.insert(f.oracle.clone());
                        violations += 1;
                        let (min, fin) = minimize::minimize(c, f, 600);
                        emit(&WorkerMsg::Violation {
                            replay: ReplayFile {
                                property: prop.to_string(),
                                oracle: fin.oracle.clone(),
                                detail: fin.detail.clone(),
                                seed,
                                run,
                                original_size: case_size(c),
                                case: min,
                            },
                        });
                    }
                }
                Verdict::Discarded(why) => {
                    if std::env::var("VERIF_DEBUG").is_ok() {
                        eprintln!("discard run {run} case {ci}: {why} [{}]", g.describe);
                    }
                    stats.cases_discarded += 1;
                }
                Verdict::HarnessError(m) => {
                    emit(&WorkerMsg::HarnessError {
                        message: format!("run {run} case {ci}: {m}"),
                    });
                }
            }
            ci += 1;
            if violations >= 3 {
                break;
            }
        }
        runs_done += 1;
        if std::env::var("VERIF_DEBUG").is_ok() && t_run.elapsed().as_millis() > 1500 {
            eprintln!("slow run {run}: gen {:?} total {:?} [{}]", t_gen, t_run.elapsed(), g.describe);
        }
        if violations >= 3 {
            truncated = true;
            break;
        }
        run = match &counter {
            Some(c) => c.next(),
            None => run + of,
        };
    }
    emit(&WorkerMsg::Done {
        stats,
        case_hashes: case_hashes.into_iter().collect(),
        nontrivial_hashes: nontrivial.into_iter().collect(),
        samples,
        sample_cases,
        runs_done,
        truncated,
    });
}

/// Prints one digest line per run (all observables of all invocations of its cases).
fn digest(prop: &str, tier: Tier, seed: u64, runs: u64, index: u64, of: u64) {
    let corpus = gen::Corpus::load(&repo_dir());
    let mut run = index;
    while run < runs {
        let mut stats = Stats::default();
        let g = generate(prop, tier, seed, run, &corpus, &mut stats);
        let mut parts = vec![];
        let mut discarded = g.cases.is_empty() || g.timing_sensitive;
        for c in &g.cases {
            parts.push(rng::hash_bytes(serde_json::to_string(c).unwrap().as_bytes()));
            let r = child::run_scenario(&c.to_scenario());
            parts.push(result_digest(&r));
            let v = c.evaluate(&mut stats);
            discarded |= matches!(v, Verdict::Discarded(_));
            parts.push(rng::hash_bytes(format!("{v:?}").as_bytes()));
            if std::env::var("VERIF_DIGEST_DEBUG").is_ok() {
                let n = parts.len();
                eprintln!(
                    "digest-debug run {run} case {} case_hash={:016x} result={:016x} verdict={:016x} exit={:?} steps={} verdict_text={}",
                    n / 3 - 1,
                    parts[n - 3],
                    parts[n - 2],
                    parts[n - 1],
                    r.exit,
                    r.steps,
                    format!("{v:?}").chars().take(300).collect::<String>()
                );
            }
        }
        // a content dropped by the wall-clock pre-screen is the one place where real time can
        // influence a run; such runs carry no verdict and are left out of the comparison
        if discarded {
            println!("{run} discarded");
        } else {
            println!("{run} {:016x}", rng::mix(&parts));
        }
        run += of;
    }
}

fn spawn_self(args: &[String]) -> std::process::Child {
    std::process::Command::new(std::env::current_exe().expect("current exe"))
        .args(args)
        .stdin(std::process::Stdio::null())
        .stdout(std::process::Stdio::piped())
        .stderr(std::process::Stdio::inherit())
        .spawn()
        .expect("spawn worker process")
}

fn tier_name(t: Tier) -> &'static str {
    match t {
        Tier::Quick => "quick",
        Tier::Thorough => "thorough",
    }
}

/// N runs, digested at two different worker-process counts: the logs must be identical.
fn determinism_selftest(prop: &str, tier: Tier, seed: u64, runs: u64, procs: u64) -> Result<u64, String> {
    let collect = |of: u64| -> Result<std::collections::BTreeMap<u64, String>, String> {
        let children: Vec<_> = (0..of)
            .map(|i| {
                spawn_self(&[
                    "digest".into(),
                    prop.into(),
                    tier_name(tier).into(),
                    seed.to_string(),
                    runs.to_string(),
                    i.to_string(),
                    of.to_string(),
                ])
            })
            .collect();
        let mut map = std::collections::BTreeMap::new();
        for mut ch in children {
            let out = ch.stdout.take().unwrap();
            for line in std::io::BufReader::new(out).lines() {
                let line = line.map_err(|e| e.to_string())?;
                let mut it = line.split_whitespace();
                if let (Some(a), Some(b)) = (it.next(), it.next()) {
                    map.insert(a.parse::<u64>().map_err(|e| e.to_string())?, b.to_string());
                }
            }
            let st = ch.wait().map_err(|e| e.to_string())?;
            if !st.success() {
                return Err(format!("digest worker exited with {st}"));
            }
        }
        Ok(map)
    };
    let a = collect(procs)?;
    let b = collect(if procs > 3 { 3 } else { 1 })?;
    if a.len() as u64 != runs || b.len() as u64 != runs {
        return Err(format!("digest count mismatch: {} / {} / {runs}", a.len(), b.len()));
    }
    for (k, v) in &a {
        if v == "discarded" || b.get(k).map(|x| x == "discarded").unwrap_or(false) {
            continue;
        }
        if b.get(k) != Some(v) {
            return Err(format!(
                "run {k} of {prop} is not deterministic across processes: {v} vs {:?}",
                b.get(k)
            ));
        }
    }
    Ok(runs)
}

#[derive(Deserialize, Debug, Clone)]
struct KnownFinding {
    status: String,
    property: String,
    oracle: String,
    #[serde(default)]
    mode: Option<String>,
    /// "<op>:<kind>" that must be among the minimised case's faults
    #[serde(default)]
    fault: Option<String>,
    #[serde(default)]
    encoding: Option<String>,
    #[serde(default)]
    detail_contains: Option<String>,
    /// the minimised case must contain a file with at least this many directly nested `begin`s
    #[serde(default)]
    min_nesting: Option<usize>,
    #[serde(default)]
    what: String,
}

#[derive(Deserialize, Debug, Default)]
struct KnownFindings {
    #[serde(default)]
    findings: Vec<KnownFinding>,
}

fn load_known() -> KnownFindings {
    let path = format!("{}/known_findings.json", verif_dir());
    match std::fs::read_to_string(&path) {
        Ok(s) => serde_json::from_str(&s).unwrap_or_else(|e| {
            eprintln!("HARNESS-ERROR: {path} does not parse: {e}");
            std::process::exit(2);
        }),
        Err(_) => KnownFindings::default(),
    }
}

fn known_matches(k: &KnownFinding, r: &ReplayFile) -> bool {
    if k.status != "known" || k.property != r.property || k.oracle != r.oracle {
        return false;
    }
    if let Some(m) = &k.mode {
        if m != r.case.mode.name() {
            return false;
        }
    }
    if let Some(f) = &k.fault {
        let has = r.case.faults.iter().any(|x| {
            format!("{:?}:{}", x.op, x.kind.name()).to_lowercase() == f.to_lowercase()
        });
        if !has {
            return false;
        }
    }
    if let Some(e) = &k.encoding {
        let cfg = r.case.configured_encoding().name().to_lowercase();
        if cfg != e.to_lowercase() {
            return false;
        }
    }
    if let Some(n) = k.min_nesting {
        let deepest = r.case.files.iter().map(|f| case::max_nesting(&f.bytes)).max().unwrap_or(0);
        if deepest < n {
            return false;
        }
    }
    if let Some(d) = &k.detail_contains {
        if !r.detail.contains(d.as_str()) {
            return false;
        }
    }
    true
}

fn required_probes(prop: &str) -> &'static [&'static str] {
    match prop {
        "C16" => &[
            "c16_result_shorter_than_original",
            "c16_result_longer_than_original",
            "c16_read_side_failure_judged",
            "c16_undecodable_content_judged",
            "c16_check_on_formatted_content",
            "c16_check_on_unformatted_content",
            "set_len_shrank_file",
            "bom_split_across_reads",
        ],
        "C17" => &[
            "c17_malformed_input_judged",
            "c17_bom_overrides_configured_encoding",
            "c17_text_changed_and_written",
            "c17_text_unchanged",
            "bom_split_across_reads",
        ],
        "C18" => &[
            "c18_file_with_injected_read_failure",
            "c18_file_with_injected_write_failure",
            "c18_file_failing_on_its_own",
            "open_after_failed_item_in_same_group",
            "dispatch_raced_by_2plus_workers",
            "lexer_dispatch_before_store",
        ],
        _ => &[],
    }
}

fn check(prop: &str, tier: Tier, procs: u64) -> i32 {
    let seed: u64 = std::env::var("VERIF_SEED")
        .ok()
        .and_then(|s| s.parse().ok())
        .unwrap_or(DEFAULT_SEED);
    println!("pasfmt-sim check property={prop} tier={} VERIF_SEED={seed} procs={procs}", tier_name(tier));
    let start = Instant::now();
    let mut harness_errors: Vec<String> = vec![];

    // determinism first
    let det_runs = if tier == Tier::Quick { 32 } else { 512 };
    let det = match determinism_selftest(prop, tier, seed ^ 0x5EED, det_runs, procs) {
        Ok(n) => n,
        Err(e) => {
            harness_errors.push(format!("determinism self-test: {e}"));
            0
        }
    };
    println!("determinism self-test: {det} runs digested identically at {procs} and {} worker processes", if procs > 3 { 3 } else { 1 });

    let counter_path = format!("{}/target/.run-counter-{}", verif_dir(), std::process::id());
    let _ = std::fs::create_dir_all(format!("{}/target", verif_dir()));
    if std::fs::write(&counter_path, [0u8; 8]).is_ok() {
        std::env::set_var("VERIF_COUNTER_FILE", &counter_path);
    }
    if std::env::var("VERIF_PRESCREEN_MS").is_err() {
        // anything slower than the pre-screen's limit is replaced anyway: stop waiting shortly after
        std::env::set_var("VERIF_PRESCREEN_MS", if tier == Tier::Quick { "500" } else { "900" });
    }
    if std::env::var("VERIF_PRESCREEN_SLOW_MS").is_err() {
        std::env::set_var("VERIF_PRESCREEN_SLOW_MS", if tier == Tier::Quick { "400" } else { "800" });
    }
    let children: Vec<_> = (0..procs)
        .map(|i| {
            spawn_self(&[
                "worker".into(),
                prop.into(),
                tier_name(tier).into(),
                seed.to_string(),
                i.to_string(),
                procs.to_string(),
            ])
        })
        .collect();
    let mut stats = Stats::default();
    let mut case_hashes = std::collections::BTreeSet::new();
    let mut nontrivial = std::collections::BTreeSet::new();
    let mut samples: Vec<String> = vec![];
    let mut sample_cases: Vec<Case> = vec![];
    let mut replays: Vec<ReplayFile> = vec![];
    let mut runs_done = 0;
    let mut truncated = false;
    for mut ch in children {
        let out = ch.stdout.take().unwrap();
        let mut done = false;
        for line in std::io::BufReader::new(out).lines() {
            let Ok(line) = line else { break };
            match serde_json::from_str::<WorkerMsg>(&line) {
                Ok(WorkerMsg::Violation { replay }) => replays.push(replay),
                Ok(WorkerMsg::HarnessError { message }) => harness_errors.push(message),
                Ok(WorkerMsg::Done {
                    stats: s,
                    case_hashes: ch_,
                    nontrivial_hashes,
                    samples: sm,
                    sample_cases: sc,
                    runs_done: rd,
                    truncated: t,
                }) => {
                    stats.merge(&s);
                    case_hashes.extend(ch_);
                    nontrivial.extend(nontrivial_hashes);
                    if samples.len() < 6 {
                        samples.extend(sm);
                    }
                    if sample_cases.len() < 2 {
                        sample_cases.extend(sc);
                    }
                    runs_done += rd;
                    truncated |= t;
                    done = true;
                }
                Err(e) => harness_errors.push(format!("unparseable worker line: {e}")),
            }
        }
        let st = ch.wait();
        if !done {
            harness_errors.push(format!("a worker process ended without its summary ({st:?})"));
        }
    }

    let _ = std::fs::remove_file(&counter_path);
    std::env::remove_var("VERIF_COUNTER_FILE");

    // violations: known findings, replay files, replay verification
    let known = load_known();
    let mut violation_lines = vec![];
    let mut known_lines = vec![];
    let replay_dir = format!("{}/replays", verif_dir());
    let _ = std::fs::create_dir_all(&replay_dir);
    replays.sort_by_key(|r| (r.oracle.clone(), case_size(&r.case)));
    let mut seen_oracles = std::collections::BTreeSet::new();
    for r in &replays {
        if let Some(k) = known.findings.iter().find(|k| known_matches(k, r)) {
            let line = format!("KNOWN-FINDING: property={} {} [{}]", r.property, k.what, r.oracle);
            if !known_lines.contains(&line) {
                known_lines.push(line);
            }
            continue;
        }
        if !seen_oracles.insert(r.oracle.clone()) {
            continue;
        }
        let path = format!("{replay_dir}/{}-{}-seed{}-run{}.json", r.property, r.oracle.replace('.', "_"), r.seed, r.run);
        if let Err(e) = std::fs::write(&path, serde_json::to_string_pretty(r).unwrap()) {
            harness_errors.push(format!("cannot write {path}: {e}"));
            continue;
        }
        // the replay file must reproduce the violation exactly, in a fresh process
        let out = std::process::Command::new(std::env::current_exe().unwrap())
            .args(["replay", &path])
            .output();
        let reproduced = match &out {
            Ok(o) => o.status.code() == Some(1)
                && String::from_utf8_lossy(&o.stdout).contains(&format!("VIOLATION property={} ", r.property)),
            Err(_) => false,
        };
        if reproduced {
            violation_lines.push((
                format!("VIOLATION property={} replay={}", r.property, path),
                format!("  oracle={} detail={} (minimised from {:?} to {:?}; seed {} run {})", r.oracle, r.detail, r.original_size, case_size(&r.case), r.seed, r.run),
            ));
        } else {
            harness_errors.push(format!("violation {} (run {}) did not reproduce from its replay file {path}", r.oracle, r.run));
        }
    }

    // reach: probes that must not be stuck at zero
    let mut missing_probes = vec![];
    for p in required_probes(prop) {
        if stats.probes.get(*p).copied().unwrap_or(0) == 0 {
            missing_probes.push(p.to_string());
        }
    }
    if !missing_probes.is_empty() && violation_lines.is_empty() && !truncated {
        harness_errors.push(format!("probes stuck at zero: {missing_probes:?}"));
    }

    let wall = start.elapsed().as_secs_f64();
    write_evidence(
        prop,
        tier,
        seed,
        &stats,
        case_hashes.len() as u64,
        nontrivial.len() as u64,
        &samples,
        &sample_cases,
        runs_done,
        truncated,
        det,
        wall,
        violation_lines.len() as i64,
        &known_lines,
        &harness_errors,
        procs,
    );

    println!(
        "runs={} cases={} (fault-free {}, with faults {}, discarded {}) invocations={} steps={} switches={} distinct_cases={} interleavings={} shapes={} wall={:.1}s",
        runs_done, stats.cases, stats.cases_fault_free, stats.cases_with_faults, stats.cases_discarded, stats.invocations, stats.steps, stats.switches, case_hashes.len(), stats.interleavings.len(), stats.shapes.len(), wall
    );
    println!("faults fired: {:?}", stats.fired);
    println!("probes: {:?}", stats.probes);
    for l in &known_lines {
        println!("{l}");
    }
    for (a, b) in &violation_lines {
        println!("{a}");
        println!("{b}");
    }
    if !violation_lines.is_empty() {
        return 1;
    }
    if !harness_errors.is_empty() {
        for e in &harness_errors {
            eprintln!("HARNESS-ERROR: {e}");
        }
        return 2;
    }
    println!("OK property={prop} held on everything explored");
    0
}

#[allow(clippy::too_many_arguments)]
fn write_evidence(
    prop: &str,
    tier: Tier,
    seed: u64,
    stats: &Stats,
    distinct_cases: u64,
    distinct_nontrivial: u64,
    samples: &[String],
    sample_cases: &[Case],
    runs_done: u64,
    truncated: bool,
    det_runs: u64,
    wall: f64,
    violations: i64,
    known_lines: &[String],
    harness_errors: &[String],
    procs: u64,
) {
    let level = if prop == "C16" { "fault_enumeration" } else { "exploration" };
    let per_hour = |n: u64| -> u64 { if wall > 0.0 { (n as f64 * 3600.0 / wall) as u64 } else { 0 } };
    let rule = match prop {
        "C16" => "run i derives a PRNG stream from (VERIF_SEED, C16, i) and generates one content (corpus snippets, re-spaced, decorated, encoded, optionally malformed/missing/unreadable/read-only) plus options; cases = every mode fault-free against the stdin reference, the same on the already-formatted result, 3 seeded fault plans, and for one content in `sweep_one_in` the exhaustive single-fault sweep (every operation of the fault-free files-mode and stdin-mode histories x every applicable fault kind). A case is distinct by the hash of its full description and non-trivial when its content is non-empty.",
        "C17" => "run i derives a PRNG stream from (VERIF_SEED, C17, i) and generates one text decorated with characters specific to a drawn encoding (all labels of the encoding option), with/without BOM (possibly disagreeing with the configured encoding), optionally corrupted; cases = files mode and stdin->stdout, fault-free and under decoder/encoder-aimed chunk policies and EINTR; the reference bytes come from the pure public API and an independent codec. Distinct by hash of the full case, non-trivial when the content is non-empty.",
        _ => "run i derives a PRNG stream from (VERIF_SEED, C18, i) and generates one batch: n files of mixed size/encoding/BOM with near-collisions, a failing subset (missing, unreadable, read-only, malformed, injected read/open/write-side faults), benign faults on half of the rest, K workers, a partition into contiguous groups, a scheduling policy and its seed, CPU-feature knob; the reference is each file in its own pristine invocation. Distinct by hash of the full case (which includes the schedule seed), non-trivial when some file is non-empty; distinct interleavings are counted separately by the hash of the (worker, operation, file) sequence.",
    };
    let mut coverage = serde_json::json!({
        "evaluations": stats.cases,
        "distinct_nontrivial": distinct_nontrivial,
        "rule": rule,
        "samples": samples,
        "sample_case_files": sample_cases,
        "exhaustive": false,
        "runs": runs_done,
        "runs_per_hour": per_hour(runs_done),
        "seeds_per_hour": per_hour(runs_done),
        "seed_note": "one VERIF_SEED; every run index derives its own independent PRNG stream from it, so runs = seeds",
        "cases_judged_distinct": distinct_cases,
        "cases_fault_free": stats.cases_fault_free,
        "cases_with_faults_or_chunking": stats.cases_with_faults,
        "cases_discarded_by_prescreen": stats.cases_discarded,
        "simulated_invocations": stats.invocations,
        "invocations_per_hour": per_hour(stats.invocations),
        "simulated_time": "logical only: pasfmt has no timers or deadlines, so simulated time is the global operation sequence number",
        "simulated_steps_total": stats.steps,
        "simulated_steps_per_invocation": if stats.invocations > 0 { stats.steps / stats.invocations } else { 0 },
        "context_switches": stats.switches,
        "faults_fired_by_kind_at_op": stats.fired,
        "faults_planned_but_not_fired": stats.planned_not_fired,
        "single_fault_sweep_cases": stats.sweep_runs,
        "distinct_interleavings": stats.interleavings.len(),
        "distinct_interleavings_measure": "hash of the (worker, operation, target file) sequence of multi-worker, multi-file runs",
        "distinct_scenario_shapes": stats.shapes.len(),
        "probes": stats.probes,
        "by_mode": stats.by_mode,
        "by_governing_encoding": stats.by_encoding,
        "by_policy": stats.by_policy,
        "by_workers": stats.by_workers,
        "max_content_bytes": stats.max_bytes,
        "determinism_selftest_runs": det_runs,
        "determinism_spot_pairs": stats.determinism_pairs,
        "reference_results_reused_from_memo": stats.reference_memo_hits,
        "followup_schedules_per_batch_case": stats.followup_schedules,
        "truncated_by_time_cap_or_violations": truncated,
        "worker_processes": procs,
        "known_findings_reported": known_lines,
        "harness_errors": harness_errors,
        "components": {
            "real": ["front-end/src/main.rs main() (included verbatim)", "clap parsing and validation (orchestrator/src/command_line.rs)", "configuration layering through the config crate (-C overrides)", "pasfmt::format / make_formatter", "FormattingOrchestrator::run", "orchestrator/src/file_formatter.rs (byte-identical, compiled against the seam)", "pasfmt-core (lexer incl. run-time dispatch static, parser, rules, optimising line formatter, reconstructor)", "encoding_rs", "std::io::Read::read_to_end / Write::write_all default implementations"],
            "simulated": ["std::fs::File/OpenOptions (in-memory POSIX-subset file system)", "stdin/stdout/stderr streams", "rayon parallel iterator (executor modelling rayon's documented contract, driven by the seeded baton scheduler)", "stderrlog (recording logger, level pinned at WARN)", "is_x86_feature_detected (real detection AND a per-run knob)", "argv"],
            "real_on_a_scratch_tree": ["walkdir / glob / --files-from path discovery and the duplicate filter's metadata()/canonicalize(): the real crates on a per-run scratch tree of empty placeholder files (incl. symbolic links, hard links, directories named like source files, names with glob metacharacters), the list file or a closed pipe on the real stdin; contents and all reads/writes stay in the simulated file system"],
            "not_simulated": ["pasfmt.toml discovery (no configuration file exists in the scratch tree; options arrive as -C overrides only)", "special files (FIFOs, devices), directory permissions, resource limits other than the descriptor limit knob"]
        }
    });
    if prop != "C18" {
        coverage.as_object_mut().unwrap().remove("distinct_interleavings");
        coverage.as_object_mut().unwrap().remove("distinct_interleavings_measure");
        coverage.as_object_mut().unwrap().remove("by_policy");
        coverage.as_object_mut().unwrap().remove("by_workers");
    }
    let ev = serde_json::json!({
        "property_id": prop,
        "tier": tier_name(tier),
        "seed": seed,
        "level": level,
        "coverage": coverage,
        "assumptions": [
            "the simulated file system, streams and pool executor are models (POSIX subset; rayon's documented contract, a superset of its real schedules)",
            "encoding_rs conversion tables are trusted (the reference codec uses its streaming API, the product its one-shot API)",
            "the formatter as a pure function is taken, not judged (contents on which it aborts or stalls alone are discarded and counted; C18 keeps batches with a file that panics inside pasfmt-core and judges what happens to the other files)",
            "a clean batch is evidence over the sampled schedules, faults and contents, not a proof over all"
        ],
        "wall_s": wall,
        "violations": violations
    });
    let dir = format!("{}/evidence", verif_dir());
    let _ = std::fs::create_dir_all(&dir);
    let path = format!("{dir}/{prop}.json");
    if let Err(e) = std::fs::write(&path, serde_json::to_string_pretty(&ev).unwrap()) {
        eprintln!("HARNESS-ERROR: cannot write {path}: {e}");
    }
}

fn replay(path: &str) -> i32 {
    let text = match std::fs::read_to_string(path) {
        Ok(t) => t,
        Err(e) => {
            eprintln!("HARNESS-ERROR: cannot read {path}: {e}");
            return 2;
        }
    };
    let rf: ReplayFile = match serde_json::from_str(&text) {
        Ok(r) => r,
        Err(e) => {
            eprintln!("HARNESS-ERROR: {path} is not a replay file: {e}");
            return 2;
        }
    };
    let mut stats = Stats::default();
    match rf.case.evaluate(&mut stats) {
        Verdict::Judged(findings) => {
            for f in &findings {
                println!("finding oracle={} detail={}", f.oracle, f.detail);
            }
            if let Some(f) = findings.iter().find(|f| f.oracle == rf.oracle) {
                println!("VIOLATION property={} replay={}", rf.property, path);
                println!("  oracle={} detail={}", f.oracle, f.detail);
                if f.detail != rf.detail {
                    println!("  note: detail differs from the recorded one: {}", rf.detail);
                }
                1
            } else {
                println!("NOT-REPRODUCED property={} oracle={} (the case now passes this oracle)", rf.property, rf.oracle);
                0
            }
        }
        Verdict::Discarded(m) => {
            println!("NOT-REPRODUCED: case discarded: {m}");
            0
        }
        Verdict::HarnessError(m) => {
            eprintln!("HARNESS-ERROR: {m}");
            2
        }
    }
}

fn parse_tier(s: &str) -> Tier {
    match s {
        "thorough" => Tier::Thorough,
        _ => Tier::Quick,
    }
}

fn main() {
    // A real invocation's environment is not part of any scenario: backtrace capture (slow and
    // address-dependent) is switched off before anything can cache the setting.
    std::env::remove_var("RUST_BACKTRACE");
    std::env::remove_var("RUST_LIB_BACKTRACE");
    let args: Vec<String> = std::env::args().collect();
    let code = match args.get(1).map(|s| s.as_str()) {
        Some("check") => {
            let prop = args.get(2).cloned().unwrap_or_default();
            let mut tier = std::env::var("VERIF_TIER").map(|t| parse_tier(&t)).unwrap_or(Tier::Quick);
            let mut procs = std::thread::available_parallelism().map(|n| n.get() as u64).unwrap_or(4).min(16);
            let mut i = 3;
            while i < args.len() {
                match args[i].as_str() {
                    "--tier" => {
                        tier = parse_tier(&args[i + 1]);
                        i += 1;
                    }
                    "--procs" => {
                        procs = args[i + 1].parse().unwrap_or(procs);
                        i += 1;
                    }
                    _ => {}
                }
                i += 1;
            }
            if !["C16", "C17", "C18"].contains(&prop.as_str()) {
                eprintln!("HARNESS-ERROR: unknown property {prop}");
                2
            } else {
                check(&prop, tier, procs.max(1))
            }
        }
        Some("worker") => {
            worker(
                &args[2],
                parse_tier(&args[3]),
                args[4].parse().unwrap(),
                args[5].parse().unwrap(),
                args[6].parse().unwrap(),
            );
            0
        }
        Some("digest") => {
            digest(
                &args[2],
                parse_tier(&args[3]),
                args[4].parse().unwrap(),
                args[5].parse().unwrap(),
                args[6].parse().unwrap(),
                args[7].parse().unwrap(),
            );
            0
        }
        Some("noncanon") => {
            for l in codec::ENCODING_LABELS {
                let e = codec::encoding(l);
                let v = codec::noncanonical_sequences(e, 2000);
                println!("{l}: {} non-canonical 1-2 byte forms, e.g. {:02x?}", v.len(), v.iter().take(4).collect::<Vec<_>>());
            }
            0
        }
        Some("replay") => replay(&args[2]),
        Some("gen") => {
            // pasfmt-sim gen <prop> <tier> <seed> <run>: dump the cases of one run
            let corpus = gen::Corpus::load(&repo_dir());
            let mut stats = Stats::default();
            let g = generate(&args[2], parse_tier(&args[3]), args[4].parse().unwrap(), args[5].parse().unwrap(), &corpus, &mut stats);
            eprintln!("{}", g.describe);
            println!("{}", serde_json::to_string(&g.cases).unwrap());
            0
        }
        Some("run-scenario") => {
            let text = std::fs::read_to_string(&args[2]).expect("read scenario");
            let sc: scenario::Scenario = serde_json::from_str(&text).expect("parse scenario");
            let res = child::run_scenario(&sc);
            println!("{}", serde_json::to_string_pretty(&res).unwrap());
            0
        }
        _ => {
            eprintln!("usage: pasfmt-sim check <C16|C17|C18> [--tier quick|thorough] [--procs N] | replay <file>");
            2
        }
    };
    std::process::exit(code);
}
