mod child;
mod product;
mod rng;
mod scenario;
mod world;

use scenario::*;

fn main() {
    let args: Vec<String> = std::env::args().collect();
    match args.get(1).map(|s| s.as_str()) {
        Some("replay") => {
            let text = std::fs::read_to_string(&args[2]).expect("read scenario");
            let sc: Scenario = serde_json::from_str(&text).expect("parse scenario");
            let res = child::run_scenario(&sc);
            println!("{}", serde_json::to_string_pretty(&res).unwrap());
        }
        Some("smoke") => {
            let mut sc = Scenario::default();
            sc.argv = vec!["simfs:/a.pas".into(), "simfs:/b.pas".into(), "simfs:/c.pas".into()];
            sc.files = vec![
                SimFile::new("simfs:/a.pas", b"begin a:=1;end.".to_vec()),
                SimFile::new("simfs:/b.pas", b"\xEF\xBB\xBFprocedure  Foo ;begin end;".to_vec()),
            ];
            sc.workers = 2;
            sc.chunks = vec![1, 1, 1];
            sc.policy = Policy { kind: PolicyKind::Random, seed: 7, depth: 0 };
            sc.want_history = true;
            sc.step_budget = 10000;
            let t = std::time::Instant::now();
            let res = child::run_scenario(&sc);
            eprintln!("{:?}", t.elapsed());
            println!("{}", serde_json::to_string_pretty(&res).unwrap());
            for f in &res.files {
                if let Some(b) = &f.bytes { println!("{} => {:?}", f.path, String::from_utf8_lossy(b)); }
            }
        }
        _ => eprintln!("usage"),
    }
}
