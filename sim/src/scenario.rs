//! The fully explicit description of one simulated `pasfmt` invocation. A scenario file alone is
//! the replay file: executing it is a pure function of its contents and the code under test.

use serde::{Deserialize, Serialize};
use std::collections::BTreeMap;

pub mod b64 {
    use serde::{Deserialize, Deserializer, Serializer};
    const TBL: &[u8; 64] = b"ABCDEFGHIJKLMNOPQRSTUVWXYZabcdefghijklmnopqrstuvwxyz0123456789+/";

    pub fn encode(data: &[u8]) -> String {
        let mut out = String::with_capacity(data.len().div_ceil(3) * 4);
        for chunk in data.chunks(3) {
            let b = [
                chunk[0],
                *chunk.get(1).unwrap_or(&0),
                *chunk.get(2).unwrap_or(&0),
            ];
            let n = ((b[0] as u32) << 16) | ((b[1] as u32) << 8) | b[2] as u32;
            out.push(TBL[(n >> 18) as usize & 63] as char);
            out.push(TBL[(n >> 12) as usize & 63] as char);
            out.push(if chunk.len() > 1 {
                TBL[(n >> 6) as usize & 63] as char
            } else {
                '='
            });
            out.push(if chunk.len() > 2 {
                TBL[n as usize & 63] as char
            } else {
                '='
            });
        }
        out
    }

    pub fn decode(s: &str) -> Result<Vec<u8>, String> {
        let mut rev = [255u8; 256];
        for (i, c) in TBL.iter().enumerate() {
            rev[*c as usize] = i as u8;
        }
        let bytes: Vec<u8> = s.bytes().filter(|b| !b.is_ascii_whitespace()).collect();
        if bytes.len() % 4 != 0 {
            return Err("base64 length".into());
        }
        let mut out = Vec::with_capacity(bytes.len() / 4 * 3);
        for q in bytes.chunks(4) {
            let pad = q.iter().rev().take_while(|b| **b == b'=').count();
            let mut n = 0u32;
            for (i, b) in q.iter().enumerate() {
                let v = if i >= 4 - pad { 0 } else { rev[*b as usize] };
                if v == 255 {
                    return Err("base64 character".into());
                }
                n = (n << 6) | v as u32;
            }
            out.push((n >> 16) as u8);
            if pad < 2 {
                out.push((n >> 8) as u8);
            }
            if pad < 1 {
                out.push(n as u8);
            }
        }
        Ok(out)
    }

    pub fn serialize<S: Serializer>(v: &Vec<u8>, s: S) -> Result<S::Ok, S::Error> {
        s.serialize_str(&encode(v))
    }
    pub fn deserialize<'de, D: Deserializer<'de>>(d: D) -> Result<Vec<u8>, D::Error> {
        let s = String::deserialize(d)?;
        decode(&s).map_err(serde::de::Error::custom)
    }

    pub mod opt {
        use serde::{Deserialize, Deserializer, Serializer};
        pub fn serialize<S: Serializer>(v: &Option<Vec<u8>>, s: S) -> Result<S::Ok, S::Error> {
            match v {
                Some(v) => s.serialize_some(&super::encode(v)),
                None => s.serialize_none(),
            }
        }
        pub fn deserialize<'de, D: Deserializer<'de>>(d: D) -> Result<Option<Vec<u8>>, D::Error> {
            let s = Option::<String>::deserialize(d)?;
            match s {
                Some(s) => super::decode(&s)
                    .map(Some)
                    .map_err(serde::de::Error::custom),
                None => Ok(None),
            }
        }
    }
}

fn yes() -> bool {
    true
}

#[derive(Serialize, Deserialize, Clone, Debug, PartialEq, Eq)]
pub struct SimFile {
    pub path: String,
    #[serde(with = "b64", rename = "bytes_b64")]
    pub bytes: Vec<u8>,
    /// false: the path does not exist (open fails with ENOENT)
    #[serde(default = "yes")]
    pub exists: bool,
    #[serde(default = "yes")]
    pub readable: bool,
    #[serde(default = "yes")]
    pub writable: bool,
}

impl SimFile {
    pub fn new(path: &str, bytes: Vec<u8>) -> Self {
        SimFile {
            path: path.to_string(),
            bytes,
            exists: true,
            readable: true,
            writable: true,
        }
    }
}

#[derive(Serialize, Deserialize, Clone, Copy, Debug, PartialEq, Eq, Hash, PartialOrd, Ord)]
#[serde(rename_all = "snake_case")]
pub enum OpKind {
    Open,
    Read,
    Write,
    Flush,
    Seek,
    SetLen,
    Sync,
    Close,
    Len,
    Rename,
    Remove,
    Print,
    Eprint,
    Log,
    Lock,
    Yield,
}

#[derive(Serialize, Deserialize, Clone, Debug, PartialEq, Eq, Hash, PartialOrd, Ord)]
#[serde(rename_all = "snake_case")]
pub enum FaultKind {
    /// EINTR: nothing transferred, caller is expected to retry
    Eintr,
    /// transfer at most this many bytes (>= 1)
    Short(u32),
    /// a write that reports Ok(0)
    WriteZero,
    Eio,
    Enospc,
    Epipe,
    Eacces,
    Emfile,
    Einval,
}

impl FaultKind {
    pub fn is_benign(&self) -> bool {
        matches!(self, FaultKind::Eintr | FaultKind::Short(_))
    }
    pub fn name(&self) -> &'static str {
        match self {
            FaultKind::Eintr => "eintr",
            FaultKind::Short(_) => "short",
            FaultKind::WriteZero => "write_zero",
            FaultKind::Eio => "eio",
            FaultKind::Enospc => "enospc",
            FaultKind::Epipe => "epipe",
            FaultKind::Eacces => "eacces",
            FaultKind::Emfile => "emfile",
            FaultKind::Einval => "einval",
        }
    }
}

pub const STDIN: &str = "<stdin>";
pub const STDOUT: &str = "<stdout>";

#[derive(Serialize, Deserialize, Clone, Debug, PartialEq, Eq)]
pub struct Fault {
    /// a file path, `<stdin>` or `<stdout>`
    pub target: String,
    pub op: OpKind,
    /// fires on the n-th (0-based) operation of this kind on this target
    pub nth: u32,
    pub kind: FaultKind,
    /// true: every operation of this kind on this target from the n-th on fails this way (a
    /// broken disk rather than a transient error)
    #[serde(default, skip_serializing_if = "std::ops::Not::not")]
    pub persistent: bool,
}

#[derive(Serialize, Deserialize, Clone, Debug, PartialEq, Eq)]
#[serde(rename_all = "snake_case")]
pub enum ChunkPolicy {
    Whole,
    /// every transfer moves at most this many bytes
    Fixed(u32),
    /// a transfer never crosses one of these absolute stream offsets
    Boundaries(Vec<u64>),
    /// the n-th transfer moves at most 1 + hash(seed, n) % max bytes
    Random { seed: u64, max: u32 },
}

#[derive(Serialize, Deserialize, Clone, Debug, PartialEq, Eq)]
pub struct Chunking {
    pub target: String,
    /// read or write
    pub op: OpKind,
    pub policy: ChunkPolicy,
}

#[derive(Serialize, Deserialize, Clone, Debug, PartialEq, Eq)]
pub struct Knobs {
    /// false hides AVX2 from the lexer's CPU feature detection
    #[serde(default = "yes")]
    pub avx2: bool,
    #[serde(default)]
    pub stdout_tty: bool,
    #[serde(default)]
    pub stdin_tty: bool,
    /// the process may have at most this many files open at once (RLIMIT_NOFILE minus the
    /// standard streams); 0 = the usual 1021
    #[serde(default)]
    pub fd_limit: u32,
}

impl Default for Knobs {
    fn default() -> Self {
        Knobs {
            avx2: true,
            stdout_tty: false,
            stdin_tty: false,
            fd_limit: 0,
        }
    }
}

#[derive(Serialize, Deserialize, Clone, Copy, Debug, PartialEq, Eq)]
#[serde(rename_all = "snake_case")]
pub enum PolicyKind {
    /// never switch voluntarily; chunks in list order on the lowest-numbered worker
    Sequential,
    /// uniform choice among runnable workers at every yield point
    Random,
    /// continue with probability 7/8, else uniform
    Sticky,
    /// random priorities with `depth` priority change points (PCT)
    Pct,
    /// never switch until the running worker finishes; random successor and chunk order
    RunToCompletion,
    RoundRobin,
    /// switches concentrated right after open, after a failed read, between write and set_len,
    /// and inside the lexer dispatch window
    Biased,
}

#[derive(Serialize, Deserialize, Clone, Debug, PartialEq, Eq)]
pub struct Policy {
    pub kind: PolicyKind,
    pub seed: u64,
    #[serde(default)]
    pub depth: u32,
    /// true: the running worker is never preempted at compute-level yield points (formatting
    /// stages, line-search iterations, lexer dispatch), only at I/O operations and item
    /// boundaries; this concentrates the exploration on I/O-level windows, which would otherwise
    /// be diluted by the thousands of compute-level yield points of one formatting call
    #[serde(default)]
    pub io_only: bool,
    /// PCT: the number of policy decisions over which the change points are spread (0 = a rough
    /// estimate from the batch size; follow-up schedules of a case use the number measured in
    /// its first run)
    #[serde(default)]
    pub horizon: u64,
}

impl Default for Policy {
    fn default() -> Self {
        Policy {
            kind: PolicyKind::Sequential,
            seed: 0,
            depth: 0,
            io_only: false,
            horizon: 0,
        }
    }
}

#[derive(Serialize, Deserialize, Clone, Debug, PartialEq, Eq)]
pub struct PureJob {
    /// a pasfmt.toml document
    pub toml: String,
    pub text: String,
}

#[derive(Serialize, Deserialize, Clone, Debug, PartialEq, Eq, Default)]
pub struct Scenario {
    #[serde(default)]
    pub property: String,
    #[serde(default)]
    pub label: String,
    #[serde(default)]
    pub seed: u64,
    #[serde(default)]
    pub run: u64,
    /// argv[1..] (argv[0] is always "pasfmt")
    pub argv: Vec<String>,
    #[serde(default)]
    pub files: Vec<SimFile>,
    #[serde(with = "b64", rename = "stdin_b64", default)]
    pub stdin: Vec<u8>,
    #[serde(default)]
    pub knobs: Knobs,
    /// pool threads (1 = the fan-out runs inline on the main thread)
    #[serde(default)]
    pub workers: usize,
    /// lengths of the contiguous groups the item list is split into (re-derived if they do not
    /// sum to the number of items)
    #[serde(default)]
    pub chunks: Vec<usize>,
    #[serde(default)]
    pub policy: Policy,
    /// explicit scheduling decisions; when present it overrides the policy until it runs out
    #[serde(default)]
    pub schedule: Option<Vec<u32>>,
    #[serde(default)]
    pub faults: Vec<Fault>,
    #[serde(default)]
    pub chunking: Vec<Chunking>,
    #[serde(default)]
    pub step_budget: u64,
    #[serde(default)]
    pub want_history: bool,
    /// when present the child does not run the CLI at all but calls the pure public API
    #[serde(default)]
    pub pure: Option<PureJob>,
    /// Path discovery (directory walk, glob, --files-from) is REAL code (walkdir, glob, std::fs)
    /// on the real file system. When set, the child creates a private scratch directory with an
    /// empty placeholder for every simulated file plus the `real_files` below, and makes it its
    /// working directory; file *contents* and every open/read/write still go to the simulated
    /// file system under the same relative path.
    #[serde(default)]
    pub real_tree: bool,
    /// real files to create in the scratch directory, e.g. a `--files-from` list
    #[serde(default)]
    pub real_files: Vec<RealFile>,
    /// (alias, target): `alias` is a second name (hard link) of the file `target`; both are listed
    /// in `files`, share one content, and their placeholders are hard links of each other
    #[serde(default)]
    pub hardlinks: Vec<(String, String)>,
    /// the two names of a hard-linked pair report one device and inode (the placeholders are
    /// hard links) but stop being one file as soon as one of them is opened for writing - what an
    /// overlay file system does with hard links of its lower layer ("copy-up"); in the simulated
    /// file system they are then simply two files with the same initial content
    #[serde(default)]
    pub links_copy_up: bool,
    /// paths (among `files`) whose placeholder in the scratch tree is a symbolic link to a
    /// regular placeholder outside the walked directories (a shared unit linked into a project)
    #[serde(default)]
    pub symlinks: Vec<String>,
    /// bytes to put on the process's REAL standard input as a pipe whose write end is already
    /// closed (e.g. a `--files-from /dev/stdin` list arriving through a pipe: it can be read
    /// exactly once); None = /dev/null
    #[serde(with = "b64::opt", rename = "real_stdin_pipe_b64", default)]
    pub real_stdin_pipe: Option<Vec<u8>>,
}

#[derive(Serialize, Deserialize, Clone, Debug, PartialEq, Eq)]
pub struct RealFile {
    pub path: String,
    #[serde(with = "b64", rename = "bytes_b64")]
    pub bytes: Vec<u8>,
}

#[derive(Serialize, Deserialize, Clone, Debug, PartialEq, Eq)]
pub struct OpRec {
    pub seq: u64,
    pub worker: u32,
    pub target: String,
    pub op: OpKind,
    /// requested size / offset / flags, depending on the operation
    pub arg: i64,
    /// result: bytes transferred / new offset; negative = -errno-like code
    pub res: i64,
    pub fault: Option<FaultKind>,
}

#[derive(Serialize, Deserialize, Clone, Debug, PartialEq, Eq)]
pub struct Fired {
    pub target: String,
    pub op: OpKind,
    pub nth: u32,
    pub kind: FaultKind,
    pub seq: u64,
}

#[derive(Serialize, Deserialize, Clone, Debug, PartialEq, Eq)]
#[serde(rename_all = "snake_case")]
pub enum Exit {
    /// `main` returned this exit code (0 success, 1 failure)
    Code(i32),
    /// the process called `exit` itself (clap usage errors): status from waitpid
    ProcessExit(i32),
    Panic(String),
    /// more simulated steps than the scenario's budget: bounded-liveness failure
    Budget,
    Signal(i32),
    /// wall-clock watchdog in the parent (a harness-level stall, never a verdict)
    Timeout,
    /// the child's report could not be read (harness error)
    Broken(String),
}

impl Exit {
    pub fn status(&self) -> Option<i32> {
        match self {
            Exit::Code(c) | Exit::ProcessExit(c) => Some(*c),
            _ => None,
        }
    }
    pub fn is_normal(&self) -> bool {
        self.status().is_some()
    }
}

#[derive(Serialize, Deserialize, Clone, Debug, PartialEq, Eq)]
pub struct FinalFile {
    pub path: String,
    pub exists: bool,
    /// None when unchanged from the scenario's initial bytes
    #[serde(with = "b64::opt", rename = "bytes_b64", default)]
    pub bytes: Option<Vec<u8>>,
}

#[derive(Serialize, Deserialize, Clone, Debug, PartialEq, Eq)]
pub struct Mutation {
    pub path: String,
    pub op: OpKind,
    pub seq: u64,
}

#[derive(Serialize, Deserialize, Clone, Debug, PartialEq, Eq)]
pub struct RunResult {
    pub exit: Exit,
    pub files: Vec<FinalFile>,
    #[serde(with = "b64", rename = "stdout_b64")]
    pub stdout: Vec<u8>,
    pub stderr_lines: Vec<String>,
    /// whatever reached the real file descriptor 2 (clap errors, panic messages)
    pub real_stderr: String,
    pub logs: Vec<(String, String)>,
    pub steps: u64,
    pub switches: u64,
    pub history: Option<Vec<OpRec>>,
    /// hash of the complete operation history (determinism self-test)
    pub history_hash: u64,
    /// hash of the (worker, op, target) sequence: identifies the interleaving
    pub interleave_hash: u64,
    pub schedule: Vec<u32>,
    pub fired: Vec<Fired>,
    /// invariant violations detected while the run proceeded
    pub invariants: Vec<String>,
    pub probes: BTreeMap<String, u64>,
    pub mutations: Vec<Mutation>,
    /// paths on which a read-side fatal fault fired (open error, read error), with its seq
    pub read_failed: Vec<(String, u64)>,
    pub pure_out: Option<String>,
    /// number of items the fan-out was asked to process and number it completed
    pub items: (u64, u64),
    /// wall-clock milliseconds measured by the parent (used only by the content pre-screen;
    /// never part of a verdict or a digest)
    #[serde(default)]
    pub wall_ms: u64,
    /// scheduling decisions taken at I/O operations and item boundaries
    #[serde(default)]
    pub policy_decisions: u64,
}

impl RunResult {
    pub fn broken(msg: String) -> Self {
        RunResult {
            exit: Exit::Broken(msg),
            files: vec![],
            stdout: vec![],
            stderr_lines: vec![],
            real_stderr: String::new(),
            logs: vec![],
            steps: 0,
            switches: 0,
            history: None,
            history_hash: 0,
            interleave_hash: 0,
            schedule: vec![],
            fired: vec![],
            invariants: vec![],
            probes: BTreeMap::new(),
            mutations: vec![],
            read_failed: vec![],
            pure_out: None,
            items: (0, 0),
            wall_ms: 0,
            policy_decisions: 0,
        }
    }

    /// Final bytes of `path` given the scenario it ran from (None = does not exist).
    pub fn final_bytes<'a>(&'a self, sc: &'a Scenario, path: &str) -> Option<&'a [u8]> {
        if let Some(f) = self.files.iter().find(|f| f.path == path) {
            if !f.exists {
                return None;
            }
            if let Some(b) = &f.bytes {
                return Some(b);
            }
        }
        sc.files
            .iter()
            .find(|f| f.path == path && f.exists)
            .map(|f| &f.bytes[..])
    }
}
