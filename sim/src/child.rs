//! One run = one freshly forked child of a pristine, single-threaded worker process. The child
//! installs the simulated world, executes the real `main()`, reports its observables through a
//! pipe and `_exit`s; every oracle runs in the parent.

use crate::scenario::*;
use crate::world::{panic_message, SimWorld, WorldRef};
use pasfmt_orchestrator::verif_seam::World as _;
use std::sync::atomic::{AtomicBool, AtomicI32, Ordering};
use std::sync::OnceLock;
use std::time::{Duration, Instant};

static WORLD: OnceLock<&'static SimWorld> = OnceLock::new();
static STDERR_MEMFD: AtomicI32 = AtomicI32::new(-1);
static REPORTED: AtomicBool = AtomicBool::new(false);

/// Wall-clock enters only here: a child that does not report in time is killed and the run
/// counts as stalled (a discarded content or a harness error, never a verdict).
pub const WATCHDOG: Duration = Duration::from_secs(60);
/// Limit for reference runs, which pre-screen contents the pure formatter chokes on.
pub const PRESCREEN_WATCHDOG: Duration = Duration::from_secs(8);

pub fn world() -> &'static SimWorld {
    WORLD.get().expect("world installed")
}

pub fn read_real_stderr() -> String {
    let fd = STDERR_MEMFD.load(Ordering::Relaxed);
    if fd < 0 {
        return String::new();
    }
    let mut out = vec![0u8; 16 * 1024];
    // SAFETY: plain reads from a descriptor this process owns into a buffer of the given length.
    let n = unsafe {
        libc::lseek(fd, 0, libc::SEEK_SET);
        libc::read(fd, out.as_mut_ptr().cast(), out.len())
    };
    out.truncate(n.max(0) as usize);
    String::from_utf8_lossy(&out).to_string()
}

fn write_all_fd(fd: i32, mut data: &[u8]) {
    while !data.is_empty() {
        // SAFETY: writing from a live slice to an owned descriptor.
        let n = unsafe { libc::write(fd, data.as_ptr().cast(), data.len()) };
        if n < 0 {
            let e = std::io::Error::last_os_error();
            if e.kind() == std::io::ErrorKind::Interrupted {
                continue;
            }
            return;
        }
        data = &data[n as usize..];
    }
}

pub fn send_report(fd: i32, res: &RunResult) {
    if REPORTED.swap(true, Ordering::SeqCst) {
        return;
    }
    let bytes = serde_json::to_vec(res).expect("serialise report");
    write_all_fd(fd, &bytes);
}

pub fn send_report_and_exit(fd: i32, res: &RunResult) -> ! {
    send_report(fd, res);
    // SAFETY: leaving the forked child without running destructors or atexit handlers.
    unsafe { libc::_exit(0) }
}

extern "C" fn at_exit() {
    // the product called `process::exit` (clap usage/help paths): report what happened so far
    // and let `exit` continue with the status it was given
    if REPORTED.load(Ordering::SeqCst) {
        return;
    }
    if let Some(w) = WORLD.get() {
        w.report_without_exit(Exit::ProcessExit(-1));
    }
}

fn yield_hook(tag: &'static str) {
    if let Some(w) = WORLD.get() {
        WorldRef(w).yield_point(tag);
    }
}

fn feature_hook(feature: &'static str) -> bool {
    match (feature, WORLD.get()) {
        ("avx2", Some(w)) => w.knob_avx2(),
        _ => true,
    }
}

pub fn scratch_root(pid: i32) -> String {
    format!("/dev/shm/pasfmt-sim-{pid}")
}

/// Placeholders for path discovery: empty real files named like the simulated ones.
fn make_real_tree(sc: &Scenario) -> std::io::Result<()> {
    // SAFETY: getpid has no preconditions.
    let root = scratch_root(unsafe { libc::getpid() });
    let _ = std::fs::remove_dir_all(&root);
    std::fs::create_dir_all(&root)?;
    for f in &sc.files {
        if !f.exists || sc.hardlinks.iter().any(|(alias, _)| *alias == f.path) {
            continue;
        }
        let p = std::path::Path::new(&root).join(&f.path);
        if let Some(parent) = p.parent() {
            std::fs::create_dir_all(parent)?;
        }
        if sc.symlinks.contains(&f.path) {
            let shared = std::path::Path::new(&root).join("linked-from-elsewhere");
            std::fs::create_dir_all(&shared)?;
            let target = shared.join(format!("target{}.pas", rng_free_index(&f.path)));
            std::fs::write(&target, b"")?;
            std::os::unix::fs::symlink(&target, &p)?;
        } else {
            std::fs::write(&p, b"")?;
        }
    }
    for (alias, target) in &sc.hardlinks {
        let a = std::path::Path::new(&root).join(alias);
        let t = std::path::Path::new(&root).join(target);
        if let Some(parent) = a.parent() {
            std::fs::create_dir_all(parent)?;
        }
        if t.exists() {
            // (`link` does not follow a symbolic link: name its target)
            let t = std::fs::canonicalize(&t).unwrap_or(t);
            std::fs::hard_link(&t, &a)?;
        }
    }
    for rf in &sc.real_files {
        let p = std::path::Path::new(&root).join(&rf.path);
        if let Some(parent) = p.parent() {
            std::fs::create_dir_all(parent)?;
        }
        std::fs::write(&p, &rf.bytes)?;
    }
    std::env::set_current_dir(&root)
}

fn rng_free_index(path: &str) -> u64 {
    crate::rng::hash_bytes(path.as_bytes()) % 1_000_000
}

pub fn remove_scratch(pid: i32) {
    let root = scratch_root(pid);
    if std::path::Path::new(&root).exists() {
        let _ = std::fs::remove_dir_all(&root);
    }
}

fn child_main(sc: &Scenario, fd: i32) -> ! {
    // SAFETY: straightforward libc calls in a single-threaded, freshly forked process.
    unsafe {
        libc::chdir(c"/".as_ptr());
        let mfd = libc::memfd_create(c"sim-stderr".as_ptr(), 0);
        if mfd >= 0 {
            libc::dup2(mfd, 2);
            STDERR_MEMFD.store(mfd, Ordering::Relaxed);
        }
        let devnull = libc::open(c"/dev/null".as_ptr(), libc::O_RDWR);
        if devnull >= 0 {
            libc::dup2(devnull, 0);
            libc::dup2(devnull, 1);
        }
        if let Some(bytes) = &sc.real_stdin_pipe {
            // a real pipe, filled and closed before the program starts (must fit the pipe buffer)
            let mut p = [0i32; 2];
            if bytes.len() <= 60_000 && libc::pipe(p.as_mut_ptr()) == 0 {
                write_all_fd(p[1], bytes);
                libc::close(p[1]);
                libc::dup2(p[0], 0);
                libc::close(p[0]);
            }
        }
    }
    if sc.real_tree {
        if let Err(e) = make_real_tree(sc) {
            let mut r = RunResult::broken(format!("cannot create scratch tree: {e}"));
            r.exit = Exit::Broken(format!("cannot create scratch tree: {e}"));
            send_report_and_exit(fd, &r);
        }
    }
    let w: &'static SimWorld = Box::leak(Box::new(SimWorld::new(sc, fd)));
    let _ = WORLD.set(w);
    assert!(pasfmt_orchestrator::verif_seam::install(Box::new(WorldRef(w))));
    assert!(pasfmt_core::verif_hooks::install(yield_hook, feature_hook));
    // pasfmt-core's `std` is the shadow (shadowstd.rs): its locks, once-cells and atomics yield
    // (VERIF_NO_STD_SHADOW=1 leaves those scheduling points out: for comparing coverage only)
    if std::env::var_os("VERIF_NO_STD_SHADOW").is_none() {
        verif_std::verif_install(yield_hook);
    }
    // SAFETY: registering a plain extern "C" callback.
    unsafe {
        libc::atexit(at_exit);
    }

    let outcome = std::panic::catch_unwind(|| {
        if let Some(job) = &sc.pure {
            let cfg: pasfmt::FormattingConfig =
                toml::from_str(&job.toml).expect("pure job: toml deserialises");
            let out = pasfmt::make_formatter(&cfg)
                .format(&job.text, pasfmt_core::prelude::FileOptions::new());
            w.set_pure_out(out);
            0
        } else {
            let code = crate::product::run();
            // what the Rust runtime does after `main`: flush stdout once, ignoring errors
            pasfmt_orchestrator::verif_seam::flush_stdout_at_exit();
            code
        }
    });
    let exit = match outcome {
        Ok(code) => Exit::Code(code),
        Err(p) => Exit::Panic(panic_message(&p)),
    };
    w.finish(exit)
}

/// Executes the scenario in a forked child and returns what it reported.
pub fn run_scenario(sc: &Scenario) -> RunResult {
    run_scenario_within(sc, WATCHDOG)
}

pub fn run_reference(sc: &Scenario) -> RunResult {
    let ms = std::env::var("VERIF_PRESCREEN_MS")
        .ok()
        .and_then(|s| s.parse::<u64>().ok())
        .map(Duration::from_millis)
        .unwrap_or(PRESCREEN_WATCHDOG);
    run_scenario_within(sc, ms)
}

pub fn run_scenario_within(sc: &Scenario, watchdog: Duration) -> RunResult {
    let t = Instant::now();
    let mut r = run_scenario_inner(sc, watchdog);
    r.wall_ms = t.elapsed().as_millis() as u64;
    r
}

/// The pre-screen's limit on how long the fault-free reference run of a content may take
/// before the content is replaced (slow contents are the pure formatter's business and would
/// only burn the budget here).
pub fn prescreen_slow_ms() -> u64 {
    std::env::var("VERIF_PRESCREEN_SLOW_MS")
        .ok()
        .and_then(|s| s.parse::<u64>().ok())
        .unwrap_or(400)
}

fn run_scenario_inner(sc: &Scenario, watchdog: Duration) -> RunResult {
    let mut fds = [0i32; 2];
    // SAFETY: pipe/fork/read/waitpid on descriptors and pids this process owns. The calling
    // process is single-threaded by construction (see main.rs), so fork is safe.
    unsafe {
        if libc::pipe(fds.as_mut_ptr()) != 0 {
            return RunResult::broken("pipe failed".into());
        }
        let pid = libc::fork();
        if pid < 0 {
            libc::close(fds[0]);
            libc::close(fds[1]);
            return RunResult::broken("fork failed".into());
        }
        if pid == 0 {
            libc::close(fds[0]);
            child_main(sc, fds[1]);
        }
        libc::close(fds[1]);
        let start = Instant::now();
        let mut data: Vec<u8> = Vec::with_capacity(64 * 1024);
        let mut buf = vec![0u8; 256 * 1024];
        let mut timed_out = false;
        loop {
            let left = watchdog.saturating_sub(start.elapsed());
            if left.is_zero() {
                timed_out = true;
                break;
            }
            let mut pfd = libc::pollfd {
                fd: fds[0],
                events: libc::POLLIN,
                revents: 0,
            };
            let r = libc::poll(&mut pfd, 1, left.as_millis().min(1000) as i32);
            if r < 0 {
                if std::io::Error::last_os_error().kind() == std::io::ErrorKind::Interrupted {
                    continue;
                }
                break;
            }
            if r == 0 {
                continue;
            }
            let n = libc::read(fds[0], buf.as_mut_ptr().cast(), buf.len());
            if n < 0 {
                if std::io::Error::last_os_error().kind() == std::io::ErrorKind::Interrupted {
                    continue;
                }
                break;
            }
            if n == 0 {
                break;
            }
            data.extend_from_slice(&buf[..n as usize]);
        }
        libc::close(fds[0]);
        if timed_out {
            libc::kill(pid, libc::SIGKILL);
        }
        let mut status = 0i32;
        loop {
            let r = libc::waitpid(pid, &mut status, 0);
            if r < 0 && std::io::Error::last_os_error().kind() == std::io::ErrorKind::Interrupted {
                continue;
            }
            break;
        }
        if sc.real_tree {
            remove_scratch(pid);
        }
        if timed_out {
            let mut r = RunResult::broken("watchdog".into());
            r.exit = Exit::Timeout;
            return r;
        }
        let wait_exit = if libc::WIFSIGNALED(status) {
            Exit::Signal(libc::WTERMSIG(status))
        } else {
            Exit::ProcessExit(libc::WEXITSTATUS(status))
        };
        if data.is_empty() {
            let mut r = RunResult::broken("no report".into());
            r.exit = wait_exit;
            return r;
        }
        match serde_json::from_slice::<RunResult>(&data) {
            Ok(mut r) => {
                if matches!(r.exit, Exit::ProcessExit(_)) || matches!(wait_exit, Exit::Signal(_)) {
                    r.exit = wait_exit;
                }
                r
            }
            Err(e) => {
                let mut r = RunResult::broken(format!("unparseable report: {e}"));
                if matches!(wait_exit, Exit::Signal(_)) {
                    r.exit = wait_exit;
                }
                r
            }
        }
    }
}

/// Entry point of the stand-in for `stderrlog`: one record into the simulated world.
pub fn record_log(level: &str, message: String) {
    if let Some(w) = WORLD.get() {
        w.log_record(level, message);
    }
}
