//! One integer decides everything: SplitMix64-seeded xoshiro256**.

#[derive(Clone, Debug)]
pub struct Rng {
    s: [u64; 4],
}

pub fn splitmix64(x: &mut u64) -> u64 {
    *x = x.wrapping_add(0x9E37_79B9_7F4A_7C15);
    let mut z = *x;
    z = (z ^ (z >> 30)).wrapping_mul(0xBF58_476D_1CE4_E5B9);
    z = (z ^ (z >> 27)).wrapping_mul(0x94D0_49BB_1331_11EB);
    z ^ (z >> 31)
}

/// Stateless mix of several integers into one (for deriving per-run / per-target streams).
pub fn mix(parts: &[u64]) -> u64 {
    let mut acc = 0x1234_5678_9ABC_DEF0u64;
    for p in parts {
        acc ^= *p;
        let mut t = acc;
        acc = splitmix64(&mut t);
    }
    acc
}

pub fn hash_bytes(bytes: &[u8]) -> u64 {
    // FNV-1a 64, then one splitmix round.
    let mut h = 0xcbf2_9ce4_8422_2325u64;
    for b in bytes {
        h ^= *b as u64;
        h = h.wrapping_mul(0x0000_0100_0000_01B3);
    }
    let mut t = h;
    splitmix64(&mut t)
}

impl Rng {
    pub fn new(seed: u64) -> Self {
        let mut x = seed;
        let s = [
            splitmix64(&mut x),
            splitmix64(&mut x),
            splitmix64(&mut x),
            splitmix64(&mut x),
        ];
        Rng { s }
    }
    pub fn derive(seed: u64, parts: &[u64]) -> Self {
        let mut all = vec![seed];
        all.extend_from_slice(parts);
        Rng::new(mix(&all))
    }
    pub fn next_u64(&mut self) -> u64 {
        let result = self.s[1].wrapping_mul(5).rotate_left(7).wrapping_mul(9);
        let t = self.s[1] << 17;
        self.s[2] ^= self.s[0];
        self.s[3] ^= self.s[1];
        self.s[1] ^= self.s[2];
        self.s[0] ^= self.s[3];
        self.s[2] ^= t;
        self.s[3] = self.s[3].rotate_left(45);
        result
    }
    /// Uniform in 0..n (n > 0).
    pub fn below(&mut self, n: u64) -> u64 {
        debug_assert!(n > 0);
        // multiply-shift; bias is irrelevant here
        ((self.next_u64() as u128 * n as u128) >> 64) as u64
    }
    pub fn usize_below(&mut self, n: usize) -> usize {
        self.below(n as u64) as usize
    }
    /// Uniform in lo..=hi.
    pub fn range(&mut self, lo: u64, hi: u64) -> u64 {
        lo + self.below(hi - lo + 1)
    }
    pub fn chance(&mut self, num: u64, den: u64) -> bool {
        self.below(den) < num
    }
    pub fn pick<'a, T>(&mut self, xs: &'a [T]) -> &'a T {
        &xs[self.usize_below(xs.len())]
    }
    pub fn shuffle<T>(&mut self, xs: &mut [T]) {
        for i in (1..xs.len()).rev() {
            let j = self.usize_below(i + 1);
            xs.swap(i, j);
        }
    }
}
