//! Delta debugging over a failing case: every candidate is re-evaluated and kept only if the
//! same oracle still fails.

use crate::case::*;
use crate::child::run_scenario;
use crate::scenario::*;

struct Min<'a> {
    oracle: &'a str,
    budget: usize,
    deadline: std::time::Instant,
    best: Case,
    finding: Finding,
}

impl Min<'_> {
    fn fails(&mut self, c: &Case) -> Option<Finding> {
        if self.budget == 0 || std::time::Instant::now() > self.deadline {
            self.budget = 0;
            return None;
        }
        self.budget -= 1;
        let mut s = Stats::default();
        match c.evaluate(&mut s) {
            Verdict::Judged(fs) => fs.into_iter().find(|f| f.oracle == self.oracle),
            _ => None,
        }
    }

    fn attempt(&mut self, c: Case) -> bool {
        if c == self.best {
            return false;
        }
        if let Some(f) = self.fails(&c) {
            self.best = c;
            self.finding = f;
            true
        } else {
            false
        }
    }
}

fn drop_file(c: &Case, ix: usize) -> Case {
    let mut n = c.clone();
    let path = n.files[ix].path.clone();
    n.files.remove(ix);
    n.path_args.retain(|a| *a != path);
    // a directory argument (or list line) whose last file went away would name a directory that
    // no longer exists: a different failure from the one being minimised
    let remaining: Vec<String> = n.files.iter().map(|f| f.path.clone()).collect();
    n.path_args.retain(|a| {
        let d = a.trim_end_matches('/');
        a.contains('*') || remaining.iter().any(|p| p == d || p.starts_with(&format!("{d}/")))
    });
    n.faults.retain(|f| f.target != path);
    n.hardlinks.retain(|(a, t)| *a != path && *t != path);
    n.symlinks.retain(|p| *p != path);
    n.chunking.retain(|f| f.target != path);
    // shrink the group that contained the file
    let mut at = 0;
    for l in n.chunks.iter_mut() {
        if ix < at + *l {
            *l -= 1;
            break;
        }
        at += *l;
    }
    n.chunks.retain(|l| *l > 0);
    // a schedule recorded for a different batch is meaningless
    n
}

fn split_lines(bytes: &[u8]) -> Vec<Vec<u8>> {
    let mut out = vec![];
    let mut cur = vec![];
    for b in bytes {
        cur.push(*b);
        if *b == b'\n' {
            out.push(std::mem::take(&mut cur));
        }
    }
    if !cur.is_empty() {
        out.push(cur);
    }
    out
}

/// ddmin over a list of pieces of one file's content.
fn shrink_pieces(m: &mut Min, file_ix: usize, pieces: Vec<Vec<u8>>, keep_prefix: usize) {
    let mut pieces = pieces;
    let mut gran = 2usize;
    while pieces.len() >= 2 && m.budget > 0 {
        let chunk = pieces.len().div_ceil(gran);
        let mut reduced = false;
        let mut start = 0;
        while start < pieces.len() && m.budget > 0 {
            let end = (start + chunk).min(pieces.len());
            let mut cand: Vec<Vec<u8>> = pieces[..start].to_vec();
            cand.extend_from_slice(&pieces[end..]);
            let mut c = m.best.clone();
            let mut bytes = c.files[file_ix].bytes[..keep_prefix].to_vec();
            bytes.extend(cand.iter().flatten());
            c.files[file_ix].bytes = bytes;
            if m.attempt(c) {
                pieces = cand;
                reduced = true;
                gran = gran.saturating_sub(1).max(2);
            } else {
                start = end;
            }
        }
        if !reduced {
            if chunk <= 1 {
                break;
            }
            gran = (gran * 2).min(pieces.len());
        }
    }
}

pub fn minimize(case: &Case, finding: &Finding, budget: usize) -> (Case, Finding) {
    let mut m = Min {
        oracle: &finding.oracle,
        budget,
        // wall-clock only bounds the effort spent on shrinking; the result is re-verified by
        // replay in any case
        deadline: std::time::Instant::now() + std::time::Duration::from_secs(30),
        best: case.clone(),
        finding: finding.clone(),
    };

    // 1. pin the schedule actually taken, then try the trivial schedule
    if m.best.workers > 1 && m.best.schedule.is_none() {
        let r = run_scenario(&m.best.to_scenario());
        let mut c = m.best.clone();
        c.schedule = Some(r.schedule.clone());
        m.attempt(c);
    }
    {
        let mut c = m.best.clone();
        c.schedule = None;
        c.policy = Policy::default();
        c.workers = 1;
        c.chunks = vec![];
        m.attempt(c);
    }
    {
        let mut c = m.best.clone();
        c.schedule = None;
        c.policy = Policy::default();
        m.attempt(c);
    }

    // 2. drop files: first in blocks (halves, quarters, ...), then one at a time
    let mut block = m.best.files.len() / 2;
    while block >= 2 && m.budget > 0 {
        let mut start = 0;
        while start < m.best.files.len() && m.best.files.len() > 1 && m.budget > 0 {
            let end = (start + block).min(m.best.files.len());
            if end - start == m.best.files.len() {
                break;
            }
            let mut c = m.best.clone();
            for ix in (start..end).rev() {
                c = drop_file(&c, ix);
            }
            if !m.attempt(c) {
                start = end;
            }
        }
        block /= 2;
    }
    let mut ix = if m.best.files.len() > 64 { 0 } else { m.best.files.len() };
    while ix > 0 && m.best.files.len() > 1 {
        ix -= 1;
        if ix < m.best.files.len() {
            let mut c = drop_file(&m.best, ix);
            if c.schedule.is_some() {
                // keep the schedule as a hint; invalid entries fall back deterministically
                c.schedule = m.best.schedule.clone();
            }
            m.attempt(c);
        }
    }

    // 3. drop faults and chunk policies
    let mut i = 0;
    while i < m.best.faults.len() {
        let mut c = m.best.clone();
        c.faults.remove(i);
        if !m.attempt(c) {
            i += 1;
        }
    }
    let mut i = 0;
    while i < m.best.chunking.len() {
        let mut c = m.best.clone();
        c.chunking.remove(i);
        if !m.attempt(c) {
            i += 1;
        }
    }
    // simplify the remaining fault arguments
    for i in 0..m.best.faults.len() {
        if let FaultKind::Short(k) = m.best.faults[i].kind {
            if k != 1 {
                let mut c = m.best.clone();
                c.faults[i].kind = FaultKind::Short(1);
                m.attempt(c);
            }
        }
    }
    for i in 0..m.best.chunking.len() {
        if m.best.chunking[i].policy != ChunkPolicy::Fixed(1) {
            let mut c = m.best.clone();
            c.chunking[i].policy = ChunkPolicy::Fixed(1);
            m.attempt(c);
        }
    }

    // 4. fewer workers, coarser groups
    while m.best.workers > 1 {
        let mut c = m.best.clone();
        c.workers -= 1;
        if !m.attempt(c) {
            break;
        }
    }
    {
        let mut c = m.best.clone();
        c.chunks = vec![c.files.len()];
        m.attempt(c);
    }
    let mut i = 0;
    while i + 1 < m.best.chunks.len() {
        let mut c = m.best.clone();
        let merged = c.chunks[i] + c.chunks[i + 1];
        c.chunks[i] = merged;
        c.chunks.remove(i + 1);
        if !m.attempt(c) {
            i += 1;
        }
    }

    // 4b. name the files explicitly instead of through path discovery
    if m.best.path_form != PathForm::Explicit && m.best.hardlinks.is_empty() {
        let mut c = m.best.clone();
        c.path_form = PathForm::Explicit;
        c.explicit_real = true;
        c.path_args.clear();
        m.attempt(c);
    }

    // 5. options, knobs, extra arguments back to defaults
    let mut i = 0;
    while i < m.best.options.len() {
        let mut c = m.best.clone();
        c.options.remove(i);
        if !m.attempt(c) {
            i += 1;
        }
    }
    {
        let mut c = m.best.clone();
        c.knobs = Knobs::default();
        m.attempt(c);
        let mut c = m.best.clone();
        c.extra_args.clear();
        m.attempt(c);
        if !m.best.bogus_paths.is_empty() {
            let mut c = m.best.clone();
            c.bogus_paths.clear();
            c.bogus_first = false;
            m.attempt(c);
        }
        if m.best.list_via_pipe {
            let mut c = m.best.clone();
            c.list_via_pipe = false;
            m.attempt(c);
        }
        if m.best.list_poison.is_some() {
            let mut c = m.best.clone();
            c.list_poison = None;
            m.attempt(c);
        }
    }
    for i in 0..m.best.files.len() {
        let mut c = m.best.clone();
        c.files[i].readable = true;
        c.files[i].writable = true;
        m.attempt(c);
    }

    // 6. contents: empty, then by line, then by byte blocks
    for fi in 0..m.best.files.len() {
        let bom_len = crate::codec::sniff_bom(&m.best.files[fi].bytes).map(|x| x.1).unwrap_or(0);
        {
            let mut c = m.best.clone();
            c.files[fi].bytes.truncate(bom_len);
            if m.attempt(c) {
                continue;
            }
        }
        {
            let mut c = m.best.clone();
            c.files[fi].bytes = b"a ;".to_vec();
            if m.attempt(c) {
                continue;
            }
        }
        let body = m.best.files[fi].bytes[bom_len..].to_vec();
        shrink_pieces(&mut m, fi, split_lines(&body), bom_len);
        let body = m.best.files[fi].bytes[bom_len..].to_vec();
        if body.len() <= 4096 {
            // two bytes per piece keeps UTF-16 aligned
            let pieces: Vec<Vec<u8>> = body.chunks(2).map(|c| c.to_vec()).collect();
            shrink_pieces(&mut m, fi, pieces, bom_len);
        }
    }

    // 7. shorten the schedule
    if let Some(s) = m.best.schedule.clone() {
        let mut len = s.len();
        while len > 0 && m.budget > 0 {
            let try_len = len / 2;
            let mut c = m.best.clone();
            c.schedule = Some(s[..try_len].to_vec());
            if m.attempt(c) {
                len = try_len;
            } else {
                break;
            }
        }
        // then trim one decision at a time from the end for a while
        for _ in 0..32 {
            let Some(cur) = m.best.schedule.clone() else { break };
            if cur.is_empty() {
                break;
            }
            let mut c = m.best.clone();
            c.schedule = Some(cur[..cur.len() - 1].to_vec());
            if !m.attempt(c) {
                break;
            }
        }
    }
    (m.best, m.finding)
}
