//! `verif_std`: what pasfmt-core sees as `std` in the simulator build.
//!
//! `rustc-wrap.sh` compiles this file to an rlib and passes `--extern std=<that rlib>` when (and
//! only when) it compiles the `pasfmt-core` package for the simulator. Everything is the real
//! standard library (`pub use ::std::*`, prelude and macros included) except the blocking and
//! atomic primitives of `std::sync`, which become *scheduling points* of the simulator's baton
//! scheduler: a thread about to take a lock, run a once-initialiser or touch an atomic first
//! offers the baton, and a thread that cannot get a lock hands the baton on instead of blocking
//! (only one simulated worker runs at a time, so really blocking would dead-lock the run).
//! Nothing in /repo changes for this seam; on the pinned tree pasfmt-core uses none of these
//! primitives through `std::` (its one atomic is reached through `core::` and has hand-placed
//! yield points), so the shadow is inert there and matters only for changes that add shared
//! state behind a lock, a once-cell or an atomic inside the formatter.
#![allow(clippy::all)]

pub use ::std::*;

use ::std::sync::atomic::{AtomicPtr as RealAtomicPtr, Ordering as RealOrdering};

static YIELD_FN: RealAtomicPtr<()> = RealAtomicPtr::new(::std::ptr::null_mut());

/// Installs the simulator's yield function (called with the name of the scheduling point).
pub fn verif_install(f: fn(&'static str)) {
    YIELD_FN.store(f as *mut (), RealOrdering::SeqCst);
}

#[inline]
pub fn verif_yield(name: &'static str) {
    let p = YIELD_FN.load(RealOrdering::Relaxed);
    if !p.is_null() {
        // SAFETY: only ever stored from a `fn(&'static str)` in `verif_install`.
        let f: fn(&'static str) = unsafe { ::std::mem::transmute(p) };
        f(name);
    }
}

pub mod sync {
    pub use ::std::sync::*;

    use super::verif_yield;
    // (`pub`: a private import of the same name would hide the glob re-export above)
    pub use ::std::sync::{
        LockResult, MutexGuard, RwLockReadGuard, RwLockWriteGuard, TryLockError, TryLockResult,
    };

    // ------------------------------------------------------------------ Mutex

    #[derive(Default)]
    pub struct Mutex<T: ?Sized>(::std::sync::Mutex<T>);

    impl<T> Mutex<T> {
        pub const fn new(t: T) -> Self {
            Mutex(::std::sync::Mutex::new(t))
        }
        pub fn into_inner(self) -> LockResult<T> {
            self.0.into_inner()
        }
    }
    impl<T: ?Sized> Mutex<T> {
        pub fn lock(&self) -> LockResult<MutexGuard<'_, T>> {
            verif_yield("core_mutex_lock");
            loop {
                match self.0.try_lock() {
                    Ok(g) => return Ok(g),
                    Err(TryLockError::Poisoned(p)) => return Err(p),
                    Err(TryLockError::WouldBlock) => verif_yield("mutex_wait"),
                }
            }
        }
        pub fn try_lock(&self) -> TryLockResult<MutexGuard<'_, T>> {
            verif_yield("core_mutex_lock");
            self.0.try_lock()
        }
        pub fn get_mut(&mut self) -> LockResult<&mut T> {
            self.0.get_mut()
        }
        pub fn is_poisoned(&self) -> bool {
            self.0.is_poisoned()
        }
        pub fn clear_poison(&self) {
            self.0.clear_poison()
        }
    }
    impl<T> From<T> for Mutex<T> {
        fn from(t: T) -> Self {
            Mutex::new(t)
        }
    }
    impl<T: ?Sized + ::std::fmt::Debug> ::std::fmt::Debug for Mutex<T> {
        fn fmt(&self, f: &mut ::std::fmt::Formatter<'_>) -> ::std::fmt::Result {
            self.0.fmt(f)
        }
    }

    // ------------------------------------------------------------------ RwLock

    #[derive(Default)]
    pub struct RwLock<T: ?Sized>(::std::sync::RwLock<T>);

    impl<T> RwLock<T> {
        pub const fn new(t: T) -> Self {
            RwLock(::std::sync::RwLock::new(t))
        }
        pub fn into_inner(self) -> LockResult<T> {
            self.0.into_inner()
        }
    }
    impl<T: ?Sized> RwLock<T> {
        pub fn read(&self) -> LockResult<RwLockReadGuard<'_, T>> {
            verif_yield("core_rwlock_read");
            loop {
                match self.0.try_read() {
                    Ok(g) => return Ok(g),
                    Err(TryLockError::Poisoned(p)) => return Err(p),
                    Err(TryLockError::WouldBlock) => verif_yield("rwlock_wait"),
                }
            }
        }
        pub fn write(&self) -> LockResult<RwLockWriteGuard<'_, T>> {
            verif_yield("core_rwlock_write");
            loop {
                match self.0.try_write() {
                    Ok(g) => return Ok(g),
                    Err(TryLockError::Poisoned(p)) => return Err(p),
                    Err(TryLockError::WouldBlock) => verif_yield("rwlock_wait"),
                }
            }
        }
        pub fn try_read(&self) -> TryLockResult<RwLockReadGuard<'_, T>> {
            verif_yield("core_rwlock_read");
            self.0.try_read()
        }
        pub fn try_write(&self) -> TryLockResult<RwLockWriteGuard<'_, T>> {
            verif_yield("core_rwlock_write");
            self.0.try_write()
        }
        pub fn get_mut(&mut self) -> LockResult<&mut T> {
            self.0.get_mut()
        }
        pub fn is_poisoned(&self) -> bool {
            self.0.is_poisoned()
        }
        pub fn clear_poison(&self) {
            self.0.clear_poison()
        }
    }
    impl<T> From<T> for RwLock<T> {
        fn from(t: T) -> Self {
            RwLock::new(t)
        }
    }
    impl<T: ?Sized + ::std::fmt::Debug> ::std::fmt::Debug for RwLock<T> {
        fn fmt(&self, f: &mut ::std::fmt::Formatter<'_>) -> ::std::fmt::Result {
            self.0.fmt(f)
        }
    }

    // ------------------------------------------------------------------ OnceLock / LazyLock / Once

    /// Releases the claim of an initialiser that unwinds, as std does (the cell stays empty and
    /// another caller may initialise it).
    struct Claim<'a>(&'a ::std::sync::atomic::AtomicBool, bool);
    impl Drop for Claim<'_> {
        fn drop(&mut self) {
            if !self.1 {
                self.0.store(false, ::std::sync::atomic::Ordering::SeqCst);
            }
        }
    }

    pub struct OnceLock<T> {
        cell: ::std::sync::OnceLock<T>,
        claimed: ::std::sync::atomic::AtomicBool,
    }
    impl<T> OnceLock<T> {
        pub const fn new() -> Self {
            OnceLock {
                cell: ::std::sync::OnceLock::new(),
                claimed: ::std::sync::atomic::AtomicBool::new(false),
            }
        }
        pub fn get(&self) -> Option<&T> {
            // (an initialised cell never changes again: only the empty answer can race)
            if let Some(v) = self.cell.get() {
                return Some(v);
            }
            verif_yield("core_once_get");
            self.cell.get()
        }
        pub fn get_mut(&mut self) -> Option<&mut T> {
            self.cell.get_mut()
        }
        pub fn set(&self, value: T) -> Result<(), T> {
            verif_yield("core_once_set");
            self.cell.set(value)
        }
        pub fn get_or_init<F: FnOnce() -> T>(&self, f: F) -> &T {
            if let Some(v) = self.cell.get() {
                return v;
            }
            verif_yield("core_once_init");
            let mut f = Some(f);
            loop {
                if let Some(v) = self.cell.get() {
                    return v;
                }
                use ::std::sync::atomic::Ordering::SeqCst;
                if self.claimed.compare_exchange(false, true, SeqCst, SeqCst).is_ok() {
                    let mut claim = Claim(&self.claimed, false);
                    let v = (f.take().expect("initialiser runs once"))();
                    let _ = self.cell.set(v);
                    claim.1 = true;
                    return self.cell.get().expect("just set");
                }
                verif_yield("once_wait");
            }
        }
        pub fn into_inner(self) -> Option<T> {
            self.cell.into_inner()
        }
        pub fn take(&mut self) -> Option<T> {
            *self.claimed.get_mut() = false;
            self.cell.take()
        }
    }
    impl<T> Default for OnceLock<T> {
        fn default() -> Self {
            OnceLock::new()
        }
    }
    impl<T: ::std::fmt::Debug> ::std::fmt::Debug for OnceLock<T> {
        fn fmt(&self, f: &mut ::std::fmt::Formatter<'_>) -> ::std::fmt::Result {
            self.cell.fmt(f)
        }
    }
    impl<T> From<T> for OnceLock<T> {
        fn from(t: T) -> Self {
            let c = OnceLock::new();
            let _ = c.cell.set(t);
            c
        }
    }

    pub struct LazyLock<T, F = fn() -> T> {
        cell: OnceLock<T>,
        init: ::std::sync::Mutex<Option<F>>,
    }
    impl<T, F: FnOnce() -> T> LazyLock<T, F> {
        pub const fn new(f: F) -> Self {
            LazyLock {
                cell: OnceLock::new(),
                init: ::std::sync::Mutex::new(Some(f)),
            }
        }
        pub fn force(this: &LazyLock<T, F>) -> &T {
            this.cell.get_or_init(|| {
                let f = this.init.lock().unwrap().take().expect("lazy initialiser present");
                f()
            })
        }
    }
    impl<T, F: FnOnce() -> T> ::std::ops::Deref for LazyLock<T, F> {
        type Target = T;
        fn deref(&self) -> &T {
            LazyLock::force(self)
        }
    }
    impl<T: Default> Default for LazyLock<T> {
        fn default() -> Self {
            LazyLock::new(T::default)
        }
    }

    pub struct Once {
        done: ::std::sync::atomic::AtomicBool,
        claimed: ::std::sync::atomic::AtomicBool,
    }
    impl Once {
        pub const fn new() -> Self {
            Once {
                done: ::std::sync::atomic::AtomicBool::new(false),
                claimed: ::std::sync::atomic::AtomicBool::new(false),
            }
        }
        pub fn is_completed(&self) -> bool {
            if self.done.load(::std::sync::atomic::Ordering::SeqCst) {
                return true;
            }
            verif_yield("core_once_get");
            self.done.load(::std::sync::atomic::Ordering::SeqCst)
        }
        pub fn call_once<F: FnOnce()>(&self, f: F) {
            use ::std::sync::atomic::Ordering::SeqCst;
            if self.done.load(SeqCst) {
                return;
            }
            verif_yield("core_once_init");
            loop {
                if self.done.load(SeqCst) {
                    return;
                }
                if self.claimed.compare_exchange(false, true, SeqCst, SeqCst).is_ok() {
                    let mut claim = Claim(&self.claimed, false);
                    f();
                    self.done.store(true, SeqCst);
                    claim.1 = true;
                    return;
                }
                verif_yield("once_wait");
            }
        }
    }

    // ------------------------------------------------------------------ atomics

    pub mod atomic {
        pub use ::std::sync::atomic::*;

        use super::super::verif_yield;
        pub use ::std::sync::atomic::Ordering;

        macro_rules! shadow_atomic_common {
            ($name:ident, $real:ty, $prim:ty) => {
                #[derive(Default)]
                pub struct $name($real);
                impl $name {
                    pub const fn new(v: $prim) -> Self {
                        $name(<$real>::new(v))
                    }
                    pub fn load(&self, o: Ordering) -> $prim {
                        verif_yield("core_atomic");
                        self.0.load(o)
                    }
                    pub fn store(&self, v: $prim, o: Ordering) {
                        verif_yield("core_atomic");
                        self.0.store(v, o)
                    }
                    pub fn swap(&self, v: $prim, o: Ordering) -> $prim {
                        verif_yield("core_atomic");
                        self.0.swap(v, o)
                    }
                    pub fn compare_exchange(&self, c: $prim, n: $prim, s: Ordering, f: Ordering) -> Result<$prim, $prim> {
                        verif_yield("core_atomic");
                        self.0.compare_exchange(c, n, s, f)
                    }
                    pub fn compare_exchange_weak(&self, c: $prim, n: $prim, s: Ordering, f: Ordering) -> Result<$prim, $prim> {
                        verif_yield("core_atomic");
                        // (no spurious failures: they would only add retries)
                        self.0.compare_exchange(c, n, s, f)
                    }
                    pub fn fetch_update<F: FnMut($prim) -> Option<$prim>>(&self, s: Ordering, f: Ordering, g: F) -> Result<$prim, $prim> {
                        verif_yield("core_atomic");
                        self.0.fetch_update(s, f, g)
                    }
                    pub fn get_mut(&mut self) -> &mut $prim {
                        self.0.get_mut()
                    }
                    pub fn into_inner(self) -> $prim {
                        self.0.into_inner()
                    }
                }
                impl From<$prim> for $name {
                    fn from(v: $prim) -> Self {
                        $name::new(v)
                    }
                }
                impl ::std::fmt::Debug for $name {
                    fn fmt(&self, f: &mut ::std::fmt::Formatter<'_>) -> ::std::fmt::Result {
                        self.0.fmt(f)
                    }
                }
            };
        }
        macro_rules! shadow_atomic_int {
            ($name:ident, $real:ty, $prim:ty) => {
                shadow_atomic_common!($name, $real, $prim);
                impl $name {
                    pub fn fetch_add(&self, v: $prim, o: Ordering) -> $prim {
                        verif_yield("core_atomic");
                        self.0.fetch_add(v, o)
                    }
                    pub fn fetch_sub(&self, v: $prim, o: Ordering) -> $prim {
                        verif_yield("core_atomic");
                        self.0.fetch_sub(v, o)
                    }
                    pub fn fetch_and(&self, v: $prim, o: Ordering) -> $prim {
                        verif_yield("core_atomic");
                        self.0.fetch_and(v, o)
                    }
                    pub fn fetch_nand(&self, v: $prim, o: Ordering) -> $prim {
                        verif_yield("core_atomic");
                        self.0.fetch_nand(v, o)
                    }
                    pub fn fetch_or(&self, v: $prim, o: Ordering) -> $prim {
                        verif_yield("core_atomic");
                        self.0.fetch_or(v, o)
                    }
                    pub fn fetch_xor(&self, v: $prim, o: Ordering) -> $prim {
                        verif_yield("core_atomic");
                        self.0.fetch_xor(v, o)
                    }
                    pub fn fetch_max(&self, v: $prim, o: Ordering) -> $prim {
                        verif_yield("core_atomic");
                        self.0.fetch_max(v, o)
                    }
                    pub fn fetch_min(&self, v: $prim, o: Ordering) -> $prim {
                        verif_yield("core_atomic");
                        self.0.fetch_min(v, o)
                    }
                }
            };
        }
        shadow_atomic_int!(AtomicUsize, ::std::sync::atomic::AtomicUsize, usize);
        shadow_atomic_int!(AtomicIsize, ::std::sync::atomic::AtomicIsize, isize);
        shadow_atomic_int!(AtomicU8, ::std::sync::atomic::AtomicU8, u8);
        shadow_atomic_int!(AtomicU16, ::std::sync::atomic::AtomicU16, u16);
        shadow_atomic_int!(AtomicU32, ::std::sync::atomic::AtomicU32, u32);
        shadow_atomic_int!(AtomicU64, ::std::sync::atomic::AtomicU64, u64);
        shadow_atomic_int!(AtomicI8, ::std::sync::atomic::AtomicI8, i8);
        shadow_atomic_int!(AtomicI16, ::std::sync::atomic::AtomicI16, i16);
        shadow_atomic_int!(AtomicI32, ::std::sync::atomic::AtomicI32, i32);
        shadow_atomic_int!(AtomicI64, ::std::sync::atomic::AtomicI64, i64);

        shadow_atomic_common!(AtomicBool, ::std::sync::atomic::AtomicBool, bool);
        impl AtomicBool {
            pub fn fetch_and(&self, v: bool, o: Ordering) -> bool {
                verif_yield("core_atomic");
                self.0.fetch_and(v, o)
            }
            pub fn fetch_nand(&self, v: bool, o: Ordering) -> bool {
                verif_yield("core_atomic");
                self.0.fetch_nand(v, o)
            }
            pub fn fetch_or(&self, v: bool, o: Ordering) -> bool {
                verif_yield("core_atomic");
                self.0.fetch_or(v, o)
            }
            pub fn fetch_xor(&self, v: bool, o: Ordering) -> bool {
                verif_yield("core_atomic");
                self.0.fetch_xor(v, o)
            }
        }

        pub struct AtomicPtr<T>(::std::sync::atomic::AtomicPtr<T>);
        impl<T> AtomicPtr<T> {
            pub const fn new(p: *mut T) -> Self {
                AtomicPtr(::std::sync::atomic::AtomicPtr::new(p))
            }
            pub fn load(&self, o: Ordering) -> *mut T {
                verif_yield("core_atomic");
                self.0.load(o)
            }
            pub fn store(&self, p: *mut T, o: Ordering) {
                verif_yield("core_atomic");
                self.0.store(p, o)
            }
            pub fn swap(&self, p: *mut T, o: Ordering) -> *mut T {
                verif_yield("core_atomic");
                self.0.swap(p, o)
            }
            pub fn compare_exchange(&self, c: *mut T, n: *mut T, s: Ordering, f: Ordering) -> Result<*mut T, *mut T> {
                verif_yield("core_atomic");
                self.0.compare_exchange(c, n, s, f)
            }
            pub fn compare_exchange_weak(&self, c: *mut T, n: *mut T, s: Ordering, f: Ordering) -> Result<*mut T, *mut T> {
                verif_yield("core_atomic");
                self.0.compare_exchange(c, n, s, f)
            }
            pub fn get_mut(&mut self) -> &mut *mut T {
                self.0.get_mut()
            }
            pub fn into_inner(self) -> *mut T {
                self.0.into_inner()
            }
        }
        impl<T> Default for AtomicPtr<T> {
            fn default() -> Self {
                AtomicPtr::new(::std::ptr::null_mut())
            }
        }
        impl<T> ::std::fmt::Debug for AtomicPtr<T> {
            fn fmt(&self, f: &mut ::std::fmt::Formatter<'_>) -> ::std::fmt::Result {
                self.0.fmt(f)
            }
        }
    }
}
