#!/usr/bin/env python3-vt
import json,jsonschema,sys,glob
m=json.load(open('/verif/MANIFEST.json'))
jsonschema.validate(m,json.load(open('/root/.vp/MANIFEST.schema.json')))
print("manifest ok")
s=json.load(open('/root/.vp/EVIDENCE.schema.json'))
for f in sorted(glob.glob('/verif/evidence/*.json')):
    e=json.load(open(f))
    jsonschema.validate(e,s)
    print(f,"ok", e['tier'], e['coverage']['evaluations'], e['coverage']['distinct_nontrivial'], e['wall_s'])
